"""C18 — Referenced (multiref) content decodes exactly like inlined content.

Proof: coq/C18/Props.v over the model coq/C18/Model.v (MultiRef.process on a
heap of nodes, RPC.replycontent, the Encoded/Typed/Core unmarshaller with
applyaty/promote/postprocess; spec: `inline` on pure trees, `dect`, `expected`).

Tie to the code: generated rpc/encoded interfaces (structs, SOAP arrays of
simple and struct items, arrays of arrays, nested) x generated values with
shared sub-values -> ONE concrete element tree per value, written (a) with
everything in line and (b) in several out-lined forms (which occurrences become
href, sharing, id spellings, names/placement/marking of the independent
elements, where prefixes are declared, dangling hrefs).  Both documents are
injected as replies; expat (not suds' parser) reads both documents into heaps
for Coq, which evaluates model = implementation (mr_agrees), the property on the
implementation's own outputs (mr_spec_ok: same result, result shows the value,
result = decode(inline(out-lined))) and the theorem's instance.
"""
import json

from . import common
from .common import cN, cnat, cbool, clist, copt, cstr

THEOREMS = [
    "process_realises_inline", "decode_heap_is_decode_tree", "input_ok_heap_ok", "multiref_equiv",
    "multiref_equiv_processed", "outlined_inlines_back", "outline_constructive",
    "outline_invariant", "fuel_suffices", "dangling_href_local", "dangling_decodes_to_href_object",
    "empty_array_is_empty_list", "array_items_typed", "array_is_list",
    "moved_attributes_keep_their_prefixes", "moved_children_keep_their_prefixes",
    "move_without_declarations_refuted", "rebound_on_referrer_path_refuted",
    "promote_never_overwrites_parent", "promote_collision_stays_local", "promote_keeps_meaning",
    "promote_keeps_siblings", "promote_overwrite_refuted", "unmarked_before_response_refuted",
]

PRE = "From SV Require Import Lib.Base C18.Model."

XSI = "http://www.w3.org/2001/XMLSchema-instance"
XSD = "http://www.w3.org/2001/XMLSchema"
ENC = "http://schemas.xmlsoap.org/soap/encoding/"
ENV = "http://schemas.xmlsoap.org/soap/envelope/"
XMLNS = "http://www.w3.org/XML/1998/namespace"
ENV12 = "http://www.w3.org/2003/05/soap-envelope"
FIXED_NS = {None: 0, XSI: 1, XSD: 2, ENC: 3, ENV: 4, XMLNS: 5, ENV12: 6}
FIXED_NAMES = {"id": 1, "href": 2, "root": 3, "type": 4, "arrayType": 5, "nil": 6}

KEY_UNMARKED = "C18:unmarked-multiref-before-response"
KEY_DIFFERS = "C18:outlined-reply-decodes-differently"
KEY_SHARED_ARRAY = "C18:shared-array-referent-untyped-items"
KEY_ARRAY = "C18:array-not-a-typed-list"
KEY_DANGLING = "C18:dangling-href-disturbs-reply"
KEY_INLINE = "C18:inline-reply-not-decoded"
KEY_REBOUND = "C18:prefix-rebound-on-independent-element"

BUILTINS = {"string": 0, "int": 1, "long": 1, "boolean": 2, "double": 3}
FUEL = 40


# ---------------------------------------------------------------------------
# interface family
# ---------------------------------------------------------------------------

class TStruct(object):
    kind = "struct"

    def __init__(self, name, ns, fields):
        self.name, self.ns, self.fields = name, ns, fields     # fields: [(name, tref, nillable)]


class TArray(object):
    kind = "array"

    def __init__(self, name, ns, item):
        self.name, self.ns, self.item = name, ns, item          # item: tref


# tref: ("b", builtin) | ("t", type object)

class Iface(object):
    def __init__(self, namespaces, types, ret):
        self.namespaces, self.types, self.ret = namespaces, types, ret


def gen_iface(rng, k):
    nns = rng.choice([1, 1, 2])
    namespaces = ["urn:c18:%d:a" % k, "urn:c18:%d:b" % k][:nns]
    types = []
    nstruct = rng.choice([1, 2, 2, 3])
    structs = [TStruct("S%d" % i, rng.randrange(nns), []) for i in range(nstruct)]
    arrays = []

    def array_of(item):
        for a in arrays:
            if a.item == item:
                return a
        nm = "ArrayOf" + (item[1] if item[0] == "b" else item[1].name)
        a = TArray(nm, rng.randrange(nns), item)
        arrays.append(a)
        return a

    def gen_tref(i, allow_struct=True):
        r = rng.random()
        if r < 0.40:
            return ("b", rng.choice(list(BUILTINS)))
        if r < 0.55 and allow_struct:
            return ("t", rng.choice(structs))                  # any struct, also itself (recursive)
        if r < 0.72:
            return ("t", array_of(("b", rng.choice(list(BUILTINS)))))
        if r < 0.92:
            return ("t", array_of(("t", rng.choice(structs))))
        inner = array_of(("b", rng.choice(["string", "int"])))
        return ("t", array_of(("t", inner)))                    # array of arrays
    for i, s in enumerate(structs):
        nf = rng.choice([1, 2, 3, 3, 4])
        for j in range(nf):
            tr = gen_tref(i)
            nillable = tr[0] == "t" and tr[1].kind == "struct" or rng.random() < 0.2
            s.fields.append(("f%d" % j if rng.random() < 0.8 else ["name", "value", "item", "next"][j], tr, nillable))
    r = rng.random()
    if r < 0.5:
        ret = ("t", structs[0])
    elif r < 0.70:
        ret = ("t", array_of(("t", rng.choice(structs))))
    elif r < 0.82:
        ret = ("t", array_of(("b", rng.choice(list(BUILTINS)))))
    elif r < 0.90:
        ret = ("t", array_of(("t", array_of(("b", "string")))))
    else:
        ret = ("b", rng.choice(list(BUILTINS)))
    types = structs + arrays
    return Iface(namespaces, types, ret)


def render_wsdl(I):
    pfx = ["tns", "nsb"]

    def tref(tr):
        if tr[0] == "b":
            return "xsd:" + tr[1]
        return "%s:%s" % (pfx[tr[1].ns], tr[1].name)
    blocks = []
    for i, uri in enumerate(I.namespaces):
        body = ['      <xsd:import namespace="%s"/>' % ENC]
        for j, u2 in enumerate(I.namespaces):
            if j != i:
                body.append('      <xsd:import namespace="%s"/>' % u2)
        for t in I.types:
            if t.ns != i:
                continue
            if t.kind == "struct":
                body.append('      <xsd:complexType name="%s"><xsd:sequence>' % t.name)
                for (fn, tr, nil) in t.fields:
                    body.append('        <xsd:element name="%s" type="%s"%s/>' % (
                        fn, tref(tr), ' nillable="true"' if nil else ""))
                body.append('      </xsd:sequence></xsd:complexType>')
            else:
                body.append('      <xsd:complexType name="%s"><xsd:complexContent><xsd:restriction base="soapenc:Array">'
                            '<xsd:attribute ref="soapenc:arrayType" wsdl:arrayType="%s[]"/>'
                            '</xsd:restriction></xsd:complexContent></xsd:complexType>' % (t.name, tref(t.item)))
        blocks.append('    <xsd:schema targetNamespace="%s">\n%s\n    </xsd:schema>' % (uri, "\n".join(body)))
    decl = " ".join('xmlns:%s="%s"' % (pfx[i], u) for i, u in enumerate(I.namespaces))
    return ("""<?xml version='1.0' encoding='UTF-8'?>
<wsdl:definitions targetNamespace="%s" %s
 xmlns:soap="http://schemas.xmlsoap.org/wsdl/soap/"
 xmlns:wsdl="http://schemas.xmlsoap.org/wsdl/"
 xmlns:soapenc="%s"
 xmlns:xsd="http://www.w3.org/2001/XMLSchema">
  <wsdl:types>
%s
  </wsdl:types>
  <wsdl:message name="fIn"/>
  <wsdl:message name="fOut"><wsdl:part name="return" type="%s"/></wsdl:message>
  <wsdl:portType name="pt">
    <wsdl:operation name="f"><wsdl:input message="tns:fIn"/><wsdl:output message="tns:fOut"/></wsdl:operation>
  </wsdl:portType>
  <wsdl:binding name="b" type="tns:pt">
    <soap:binding style="rpc" transport="http://schemas.xmlsoap.org/soap/http"/>
    <wsdl:operation name="f"><soap:operation soapAction="a"/>
      <wsdl:input><soap:body use="encoded" namespace="%s" encodingStyle="%s"/></wsdl:input>
      <wsdl:output><soap:body use="encoded" namespace="%s" encodingStyle="%s"/></wsdl:output>
    </wsdl:operation>
  </wsdl:binding>
  <wsdl:service name="svc"><wsdl:port name="port" binding="tns:b"><soap:address location="http://unused.invalid/svc"/></wsdl:port></wsdl:service>
</wsdl:definitions>
""" % (I.namespaces[0], decl, ENC, "\n".join(blocks), tref(I.ret), I.namespaces[0], ENC, I.namespaces[0], ENC)
            ).encode("utf-8")


# ---------------------------------------------------------------------------
# values -> one concrete element tree (shared contents are shared objects)
# ---------------------------------------------------------------------------

STRINGS = ["bob", "x", "a b", "ünï", "日本", "7", "true", "#id0", "id0", "q&a", "<tag>", "multiRef", "a\"b'c",
           "0123456789" * 3, "href"]
INTS = ["0", "7", "-1", "42", "2147483647", "-2147483648", "100000"]
DOUBLES = ["1.5", "-2.25", "0.0", "100.0", "1e+100", "3.141592653589793"]
BOOLS = ["true", "false"]


def gen_leaf_text(rng, b):
    return rng.choice({"string": STRINGS, "int": INTS, "long": INTS + ["9223372036854775807"],
                       "boolean": BOOLS, "double": DOUBLES}[b])


class Content(object):
    """What an element carries apart from its name: attributes (qualified
    names resolved later), text, children.  A Content object referenced by
    several Elems is a shared value."""

    def __init__(self, kind, attrs, text, kids, value, tyname):
        self.kind = kind            # leaf | nil | struct | array
        self.attrs = attrs          # [(nskey, local, valuespec)], valuespec: ("s", str) | ("q", nskey, local, suffix)
        self.text = text
        self.kids = kids            # [Elem]
        self.value = value          # abstract value (for `expected`)
        self.tyname = tyname


class Elem(object):
    def __init__(self, name, content):
        self.name, self.content = name, content


def tref_q(tr):
    """nskey of a type reference: 'xsd' or ('u', index)"""
    if tr[0] == "b":
        return ("xsd", tr[1])
    return (("u", tr[1].ns), tr[1].name)


class ValueGen(object):
    def __init__(self, rng, I, share_p):
        self.rng, self.I, self.share_p = rng, I, share_p
        self.pool = {}              # type key -> [Content]

    def key(self, tr):
        return tr[1] if tr[0] == "b" else tr[1].name

    def content(self, tr, depth, typed_p, via_array=False):
        rng = self.rng
        k = self.key(tr)
        pool = self.pool.setdefault(k, [])
        if pool and rng.random() < self.share_p:
            return rng.choice(pool)
        c = self.fresh(tr, depth, typed_p, via_array)
        if c.kind != "nil":
            pool.append(c)
        return c

    def fresh(self, tr, depth, typed_p, via_array):
        rng = self.rng
        typed = rng.random() < typed_p
        q = tref_q(tr)
        tattr = [("xsi", "type", ("q", q[0], q[1], ""))] if typed else []
        if tr[0] == "b":
            t = gen_leaf_text(rng, tr[1])
            return Content("leaf", tattr, t, [], ("leaf", BUILTINS[tr[1]], t), tr[1])
        T = tr[1]
        if T.kind == "struct":
            fields = []
            vals = []
            for (fn, ftr, nil) in T.fields:
                r = rng.random()
                if nil and (depth <= 0 or r < 0.25) and not (ftr[0] == "t" and ftr[1].kind == "array"):
                    c = Content("nil", [("xsi", "nil", ("s", rng.choice(["true", "true", "TRUE", "True"])))], None, [],
                                ("nil",), None)
                elif depth <= 0 and ftr[0] == "t" and ftr[1].kind == "struct":
                    continue        # absent
                elif r > 0.93 and len(T.fields) > 1:
                    continue        # absent accessor
                else:
                    c = self.content(ftr, depth - 1, typed_p)
                fields.append(Elem(fn, c))
                vals.append((fn, c.value))
            if not fields:          # keep at least one accessor (an empty struct is C02's business)
                fn, ftr, nil = T.fields[0]
                if ftr[0] == "t" and ftr[1].kind == "struct":
                    c = Content("nil", [("xsi", "nil", ("s", "true"))], None, [], ("nil",), None)
                else:
                    c = self.content(ftr, 0, typed_p)
                fields.append(Elem(fn, c))
                vals.append((fn, c.value))
            return Content("struct", tattr, None, fields, ("struct", T.name, vals), T.name)
        # SOAP array
        item = T.item
        n = rng.choice([0, 0, 1, 2, 2, 3, 4]) if depth > 0 or item[0] == "b" else rng.choice([0, 0, 1])
        iq = tref_q(item)
        how = rng.random()
        if how < 0.35:
            tattr = [("xsi", "type", ("q", "enc", "Array", ""))]
        elif how < 0.6:
            tattr = [("xsi", "type", ("q", q[0], q[1], ""))]
        else:
            tattr = []
        aty = ("enc", "arrayType", ("q", iq[0], iq[1], "[%d]" % n))
        attrs = [aty] + tattr if rng.random() < 0.5 else tattr + [aty]
        iname = rng.choice(["item", "item", "item", "e", item[1] if item[0] == "b" else item[1].name, "multiRef"])
        items_typed_p = rng.choice([0.0, 0.0, 0.3, 1.0])
        kids = []
        for _ in range(n):
            kids.append(Elem(iname, self.content(item, depth - 1, items_typed_p, via_array=True)))
        return Content("array", attrs, None, kids, ("arr", [k.content.value for k in kids]), T.name)


# ---------------------------------------------------------------------------
# writing the documents
# ---------------------------------------------------------------------------

class Style(object):
    """How one document spells things."""

    def __init__(self, rng, I, local_decls):
        self.p = {"xsi": rng.choice(["xsi", "xsi", "xsi", "i", "XSI", "xs-i", "p3"]),
                  "xsd": rng.choice(["xsd", "xsd", "xs", "s"]),
                  "enc": rng.choice(["soapenc", "SOAP-ENC", "enc", "ns7"]),
                  "env": rng.choice(["soapenv", "SOAP-ENV", "soap", "env"])}
        for i in range(len(I.namespaces)):
            self.p[("u", i)] = "ns%d" % (i + 1) if rng.random() < 0.7 else "t%d" % i
        self.uri = {"xsi": XSI, "xsd": XSD, "enc": ENC, "env": ENV}
        for i, u in enumerate(I.namespaces):
            self.uri[("u", i)] = u
        self.local_decls = local_decls        # declare what an independent element uses on that element
        # Axis style: independent elements re-declare ONE prefix spelling locally for DIFFERENT namespaces:
        # (spelling, namespace key of the elements that refer to others, namespace key of the other elements)
        self.axis = None


def esc(s, attr=False):
    s = s.replace("&", "&amp;").replace("<", "&lt;").replace(">", "&gt;")
    if attr:
        s = s.replace('"', "&quot;")
    return s


class Writer(object):
    def __init__(self, st, pretty):
        self.st, self.pretty = st, pretty
        self.ov = {}                # spelling in force inside the independent element being written

    def pfx(self, k):
        return self.ov.get(k, self.st.p[k])

    def attr(self, a, used):
        nskey, local, vs = a
        if nskey is None:
            nm = local
        else:
            used.add(nskey)
            nm = "%s:%s" % (self.pfx(nskey), local)
        if vs[0] == "s":
            v = vs[1]
        else:
            used.add(vs[1])
            v = "%s:%s%s" % (self.pfx(vs[1]), vs[2], vs[3])
        return '%s="%s"' % (nm, esc(v, True))

    def element(self, qname, attrs, content, href_of, used, decls_here=False, extra=""):
        """content: Content or None (a bare referrer).  href_of(elem) -> id or None"""
        inner_used = set()
        parts = [self.attr(a, inner_used) for a in attrs]
        body = ""
        if content is not None:
            if content.text is not None:
                body = esc(content.text)
            else:
                body = "".join(self.occurrence(k, href_of, inner_used) for k in content.kids)
                if self.pretty and content.kids:
                    body = "\n" + body
        decl = ""
        if decls_here:
            decl = "".join(' xmlns:%s="%s"' % (self.pfx(k), self.st.uri[k]) for k in sorted(inner_used, key=str))
        else:
            used |= inner_used
        s = "<%s%s%s%s" % (qname, "".join(" " + p for p in parts), extra, decl)
        if body == "" and content is not None and content.text is None:
            s += "/>"
        elif content is None:
            s += "/>"
        else:
            s += ">%s</%s>" % (body, qname)
        return s + ("\n" if self.pretty else "")

    def occurrence(self, e, href_of, used):
        ref = href_of(e)
        if ref is not None:
            return self.element(e.name, [(None, "href", ("s", "#" + ref))], None, href_of, used)
        return self.element(e.name, e.content.attrs, e.content, href_of, used)


IDS = [lambda k: "id%d" % k, lambda k: "ID_%d" % k, lambda k: "o%d.x-y" % k, lambda k: "é%d" % k,
       lambda k: "_%d" % k, lambda k: "ref-%d" % (k * 7), lambda k: "i" + "d" * k, lambda k: "Id%d" % k if k % 2 else "id%d" % k]
INDEP_NAMES = ["multiRef", "multiRef", "multiRef", "item", "ref", "Object", "@type"]


class Outline(object):
    """One way of writing the element tree: which occurrences are references,
    how independent elements are named, identified, marked and ordered."""

    def __init__(self, rng, root, I, p_out, marking, dangling=False, decide=None):
        self.rng = rng
        self.href = {}              # id(Elem) -> ref id string
        self.defs = []              # [(ref id, Content)] in emission order
        self.dangling = []          # Elems written with an href nobody answers
        self.marking = marking      # 'marked' | 'unmarked-after' | 'mixed' | 'unmarked-before'
        idf = rng.choice(IDS)
        by_content = {}
        order = []

        def walk(e, inside_out):
            c = e.content
            if c.kind != "nil" and (decide(e) if decide else rng.random() < p_out):
                if id(c) not in by_content or (decide is None and rng.random() < 0.08):   # rarely: a second copy, not shared
                    by_content[id(c)] = idf(len(order))
                    order.append((by_content[id(c)], c))
                    first = True
                else:
                    first = False
                self.href[id(e)] = by_content[id(c)]
                if first:
                    for k in c.kids:
                        walk(k, True)
                return
            for k in c.kids:
                walk(k, inside_out)
        walk(root, False)
        if dangling:
            cands = []

            def collect(e, seen):
                if id(e) in seen:
                    return
                seen.add(id(e))
                if e.content.kind != "nil" and e is not root:
                    cands.append(e)
                if id(e) not in self.href:
                    for k in e.content.kids:
                        collect(k, seen)
            collect(root, set())
            for _, c in order:
                for k in c.kids:
                    collect(k, set())
            if cands:
                e = rng.choice(cands)
                self.href[id(e)] = rng.choice(["nope", "ID0", "id", "", "#id0", "id0 "])
                if self.href[id(e)] in [d[0] for d in order]:
                    self.href[id(e)] = "no-such-" + self.href[id(e)]
                self.dangling.append(e)
        self.defs = order
        rng.shuffle(self.defs)
        self.names = [rng.choice(INDEP_NAMES) for _ in self.defs]
        n = len(self.defs)
        if marking == "marked":
            self.marks = ["0"] * n
            self.before = [rng.random() < 0.4 for _ in range(n)]
        elif marking == "unmarked-after":
            self.marks = [None] * n
            self.before = [False] * n
        elif marking == "mixed":
            self.marks = [rng.choice(["0", None, "0", "false"]) for _ in range(n)]
            self.before = [m is not None and rng.random() < 0.4 for m in self.marks]
        else:   # unmarked-before: the reproduced defect
            self.marks = [rng.choice([None, None, "0", "1"]) for _ in range(n)]
            self.before = [rng.random() < 0.5 for _ in range(n)]
            if n and not any(b and m in (None, "1") for b, m in zip(self.before, self.marks)):
                self.marks[0], self.before[0] = rng.choice([None, "1"]), True
        self.resp_mark = rng.choice([None, None, "1"])

    def href_of(self, e):
        return self.href.get(id(e))

    def hits_unmarked_before(self):
        return any(b and m in (None, "1") for b, m in zip(self.before, self.marks))


def has_refs(c, href_of):
    """is some element written inside this content a reference"""
    for k in c.kids:
        if href_of(k) is not None or has_refs(k.content, href_of):
            return True
    return False


def write_doc(rng, I, st, root, outline, pretty):
    """-> bytes.  outline None = everything in line (dangling hrefs of the
    `dangling_of` outline are kept: there is nothing to put in their place)."""
    W = Writer(st, pretty)
    used = set(["env"])
    href_of = (lambda e: None) if outline is None else outline.href_of
    resp_attrs = ""
    resp_inner = W.occurrence(root, href_of, used)
    used.add(("u", 0))
    before, after = [], []
    if outline is not None:
        if outline.resp_mark:
            resp_attrs = ' %s:root="%s"' % (st.p["enc"], outline.resp_mark)
            used.add("enc")
        defs, names = list(outline.defs), list(outline.names)
        kinds = [None] * len(defs)
        if st.axis and st.local_decls:
            # which namespace the colliding spelling stands for on each independent element.  Only elements
            # WITHOUT references inside may use the second namespace, and the first element (in document order)
            # that declares the spelling uses the first one: then the binding promotePrefixes lifts to the
            # Envelope is never shadowed on the way up from content that relies on it (the guard of
            # moved_attributes_keep_their_prefixes); the other bindings stay on their elements and travel
            # with the moved content.
            P, k0, k1 = st.axis
            # an array item without xsi:type of its own is typed by Encoded.applyaty with the TEXT of the array's
            # arrayType QName, resolved on the item: an item that re-binds that spelling is outside the family
            # (it decodes untyped in line as well; reported as debatable)
            typed_by_array = set()

            def scan(c, seen):
                if id(c) in seen:
                    return
                seen.add(id(c))
                for k in c.kids:
                    if c.kind == "array" and not any(a[0] == "xsi" and a[1] == "type" for a in k.content.attrs):
                        typed_by_array.add(id(k.content))
                    scan(k.content, seen)
            scan(root.content, set())
            for i, (rid, c) in enumerate(defs):
                scratch = set()
                W.element("x", c.attrs, c, href_of, scratch)
                if k0 in scratch:
                    kinds[i] = k0
                elif k1 in scratch and not has_refs(c, href_of) and id(c) not in typed_by_array:
                    kinds[i] = k1
            seq = [i for i in range(len(defs)) if outline.before[i]] + [i for i in range(len(defs)) if not outline.before[i]]
            first = next((i for i in seq if kinds[i] is not None), None)
            if first is not None and kinds[first] == k1:
                j = next((i for i in seq if kinds[i] == k0), None)
                if j is not None:
                    defs[first], defs[j] = defs[j], defs[first]
                    names[first], names[j] = names[j], names[first]
                    kinds[first], kinds[j] = kinds[j], kinds[first]
        for (rid, c), nm, mark, bef, kind in zip(defs, names, outline.marks, outline.before, kinds):
            attrs = [(None, "id", ("s", rid))]
            if mark is not None:
                attrs.append(("enc", "root", ("s", mark)))
            if rng.random() < 0.3:
                attrs.append(("env", "encodingStyle", ("s", ENC)))
            if nm == "@type":
                qname = "%s:%s" % (st.p[("u", 0)], c.tyname or "x") if c.kind != "leaf" else "%s:%s" % (st.p["xsd"], c.tyname)
                used.add(("u", 0))
                used.add("xsd")
            else:
                qname = nm
            if rng.random() < 0.5:
                attrs = attrs + c.attrs
            else:
                attrs = c.attrs + attrs
            W.ov = {kind: st.axis[0]} if kind is not None else {}
            s = W.element(qname, attrs, c, href_of, used, decls_here=st.local_decls)
            W.ov = {}
            (before if bef else after).append(s)
    resp = "<%s:fResponse%s>%s%s</%s:fResponse>%s" % (
        st.p[("u", 0)], resp_attrs, "\n" if pretty else "", resp_inner, st.p[("u", 0)], "\n" if pretty else "")
    body = "".join(before) + resp + "".join(after)
    decl = "".join(' xmlns:%s="%s"' % (st.p[k], st.uri[k]) for k in sorted(used, key=str))
    if not st.local_decls:
        decl = "".join(' xmlns:%s="%s"' % (st.p[k], st.uri[k]) for k in sorted(st.uri, key=str))
    doc = ('<?xml version="1.0" encoding="UTF-8"?>\n<%s:Envelope%s>%s<%s:Body>%s%s</%s:Body>%s</%s:Envelope>' % (
        st.p["env"], decl, "\n" if pretty else "", st.p["env"], "\n" if pretty else "", body, st.p["env"],
        "\n" if pretty else "", st.p["env"]))
    return doc.encode("utf-8")


# ---------------------------------------------------------------------------
# reading a document with expat into a heap term
# ---------------------------------------------------------------------------

class Interner(object):
    def __init__(self):
        self.names = dict(FIXED_NAMES)
        self.ns = dict(FIXED_NS)

    def name(self, s):
        if s not in self.names:
            self.names[s] = 10 + len(self.names)
        return self.names[s]

    def nsid(self, u):
        if u not in self.ns:
            self.ns[u] = 10 + len(self.ns)
        return self.ns[u]


def doc_to_heap(U, data, I):
    """-> (coq heap term, number of nodes).  Node 0 is the Body."""
    env = U.expat_parse(data)
    body = env.find("Body", ENV)
    nodes = []
    ids = {}

    def number(n):
        ids[id(n)] = len(nodes)
        nodes.append(n)
        for c in n.elements():
            number(c)
    number(body)
    terms = []
    for n in nodes:
        attrs = []
        for (ns, local), v in n.attrs.items():
            q = None
            ref = None
            if ns == XSI and local == "type":
                ref = v
            elif ns == ENC and local == "arrayType":
                ref = v.split("[")[0]
            if ref is not None and ":" in ref:
                try:
                    u, l = n.resolve_qname(ref)
                    q = "(%s, %s)" % (cN(I.nsid(u)), cN(I.name(l)))
                except KeyError:
                    q = None
            attrs.append("(mkA %s %s %s %s)" % (cN(I.nsid(ns)), cN(I.name(local)), cstr(v), copt(q, "qn")))
        kids = n.elements()
        text = n.own_text()
        if kids:
            text = text.strip()          # Handler.endElement trims elements that have children
        terms.append("(mkN %s %s %s %s %s)" % (
            cN(I.nsid(n.ns)), cN(I.name(n.name)), clist(attrs, "attr"),
            copt(cstr(text) if text else None, "str"), clist([cnat(ids[id(k)]) for k in kids], "nat")))
    return clist(terms, "node"), len(nodes)


def c_schema(I_, In):
    ents = []
    for b, k in sorted(BUILTINS.items()):
        ents.append("(mkT (%s, %s) (Some %s) (DBuiltin %s))" % (cN(2), cN(In.name(b)), cN(In.name(b)), cN(k)))
    ents.append("(mkT (%s, %s) (Some %s) DArray)" % (cN(3), cN(In.name("Array")), cN(In.name("Array"))))
    for t in I_.types:
        q = "(%s, %s)" % (cN(In.nsid(I_.namespaces[t.ns])), cN(In.name(t.name)))
        if t.kind == "array":
            ents.append("(mkT %s (Some %s) DArray)" % (q, cN(In.name(t.name))))
        else:
            fs = []
            for (fn, tr, nil) in t.fields:
                fs.append("(mkF %s %s false %s)" % (cN(In.name(fn)), c_tref(I_, In, tr), cbool(nil)))
            ents.append("(mkT %s (Some %s) (DStruct %s))" % (q, cN(In.name(t.name)), clist(fs, "field")))
    return clist(ents, "tent")


def c_tref(I_, In, tr):
    if tr[0] == "b":
        return "(%s, %s)" % (cN(2), cN(In.name(tr[1])))
    return "(%s, %s)" % (cN(In.nsid(I_.namespaces[tr[1].ns])), cN(In.name(tr[1].name)))


def value_with_dangling(root, dangling):
    """the abstract value in which every dangling occurrence is opaque: values
    are rebuilt along the element tree because a shared content may be dangling
    at one place only"""
    dang = set(id(e) for e in dangling)

    def val(e):
        if id(e) in dang:
            return ("opaque",)
        c = e.content
        if c.kind == "struct":
            return ("struct", c.value[1], [(k.name, val(k)) for k in c.kids])
        if c.kind == "array":
            return ("arr", [val(k) for k in c.kids])
        return c.value
    return val(root)


def c_value2(In, v):
    if v[0] == "opaque":
        return "VOpaque"
    if v[0] == "leaf":
        return "(VLeaf %s %s)" % (cN(v[1]), cstr(v[2]))
    if v[0] == "nil":
        return "VNil"
    if v[0] == "struct":
        return "(VStruct %s %s)" % (cN(In.name(v[1])), clist(
            ["(%s, %s)" % (cN(In.name(fn)), c_value2(In, x)) for fn, x in v[2]], "N * value"))
    return "(VArr %s)" % clist([c_value2(In, x) for x in v[1]], "value")


# ---------------------------------------------------------------------------
# the implementation
# ---------------------------------------------------------------------------

def canon(v, In):
    from suds.sudsobject import Object
    from suds.sax.element import Element
    if v is None:
        return "PNone"
    if isinstance(v, bool):
        return "(PVal 2%%N %s)" % cstr("true" if v else "false")
    if isinstance(v, int):
        return "(PVal 1%%N %s)" % cstr(str(v))
    if isinstance(v, float):
        return "(PVal 3%%N %s)" % cstr(repr(v))
    if isinstance(v, str):
        return "(PText %s)" % cstr(str(v))
    if isinstance(v, list):
        return "(PList %s)" % clist([canon(x, In) for x in v], "pv")
    if isinstance(v, Element):
        return "PNode"
    if isinstance(v, Object):
        fs = []
        for k in v.__keylist__:
            isa = k.startswith("_")
            fs.append("((%s, %s), %s)" % (cbool(isa), cN(In.name(k[1:] if isa else k)), canon(getattr(v, k), In)))
        return "(PObj %s %s)" % (cN(In.name(v.__class__.__name__)), clist(fs, "(bool * N) * pv"))
    return "PUnmodelled"


def run_impl(client, doc, In):
    """-> (coq dres term, printable)"""
    import suds
    try:
        r = client.service.f(__inject={"reply": doc})
        return "(DOk %s)" % canon(r, In), show(r)
    except suds.TypeNotFound as e:
        return "(DErr 1%N)", "TypeNotFound(%s)" % (e,)
    except RecursionError as e:
        return "(DErr 2%N)", "RecursionError"
    except AttributeError as e:
        return "(DErr 3%N)", "AttributeError(%s)" % (e,)
    except Exception as e:  # noqa
        return "(DErr 9%N)", "%s(%s)" % (type(e).__name__, e)


def show(v):
    from suds.sudsobject import Object
    if isinstance(v, Object):
        return "%s{%s}" % (v.__class__.__name__, ", ".join("%s=%s" % (k, show(getattr(v, k))) for k in v.__keylist__))
    if isinstance(v, list):
        return "[%s]" % ", ".join(show(x) for x in v)
    if isinstance(v, str):
        return repr(str(v))         # Text prints like the str it extends
    return repr(v)


# ---------------------------------------------------------------------------
# one interface, its values, their documents
# ---------------------------------------------------------------------------

class Runner(object):
    def __init__(self, ck, U):
        self.ck, self.U = ck, U
        self.cases = []           # (term, meta)

    def add(self, client, wsdl, I, root, st_in, st_out, outline, pretty, tag):
        ck = self.ck
        rng = ck.rng
        In = Interner()
        for u in I.namespaces:
            In.nsid(u)
        # the in-line form keeps dangling references (nothing to put in their place)
        keep = None
        if outline.dangling:
            keep_ids = dict((id(e), outline.href[id(e)]) for e in outline.dangling)

            class Keep(object):
                def href_of(self, e):
                    return keep_ids.get(id(e))
                defs, names, marks, before, resp_mark = [], [], [], [], None
            keep = Keep()
        doc_in = write_doc(rng, I, st_in, root, keep, pretty)
        doc_out = write_doc(rng, I, st_out, root, outline, pretty)
        h_in, n_in = doc_to_heap(self.U, doc_in, In)
        h_out, n_out = doc_to_heap(self.U, doc_out, In)
        r_in, s_in = run_impl(client, doc_in, In)
        r_out, s_out = run_impl(client, doc_out, In)
        val = value_with_dangling(root, outline.dangling)
        # fuel only bounds recursion depth: Body > response > value (depth d) needs d + 3
        fuel = max(FUEL, depth_of(root) + 8)
        term = "(mkC %s %s %s %s 0%%nat %s 0%%nat %s %s %s)" % (
            c_schema(I, In), c_tref(I, In, I.ret), cnat(fuel), h_in, h_out, r_in, r_out, c_value2(In, val))
        nrefs = len(outline.href)
        shared = len(outline.href) - len(set(outline.href.values()))
        meta = {"wsdl": wsdl, "doc_in": doc_in, "doc_out": doc_out, "r_in": s_in, "r_out": s_out,
                "unmarked_before": outline.hits_unmarked_before(), "dangling": bool(outline.dangling),
                "nrefs": nrefs, "shared": shared, "ndefs": len(outline.defs), "marking": outline.marking,
                "xsi_prefix": st_out.p["xsi"], "same": r_in == r_out, "tag": tag}
        self.cases.append((term, meta))
        ck.seen((tag, doc_out), nontrivial=nrefs > 0)
        ck.count("marking-" + outline.marking)
        ck.count("refs-%s" % ("0" if nrefs == 0 else "1" if nrefs == 1 else "2-4" if nrefs <= 4 else "5+"))
        if shared:
            ck.count("with-shared-referent")
        if outline.dangling:
            ck.count("with-dangling-href")
        if st_out.local_decls:
            ck.count("prefixes-declared-on-independent-elements")
        if st_out.axis and doc_out.count(b'xmlns:ns5="') >= 2 and len(set(
                x.split(b'"')[0] for x in doc_out.split(b'xmlns:ns5="')[1:])) >= 2:
            ck.count("axis-style-one-prefix-two-namespaces")
        ck.count("result-" + ("ok" if r_out.startswith("(DOk") else r_out))
        return meta


def fixed_iface():
    P = TStruct("Person", 0, [])
    AS = TArray("ArrayOfString", 0, ("b", "string"))
    AI = TArray("ArrayOfInt", 1, ("b", "int"))
    AP = TArray("ArrayOfPerson", 0, ("t", P))
    P.fields = [("name", ("b", "string"), False), ("age", ("b", "int"), False), ("friend", ("t", P), True),
                ("tags", ("t", AS), False), ("nums", ("t", AI), False), ("nums2", ("t", AI), False),
                ("kids", ("t", AP), False)]
    return Iface(["urn:c18:fixed:a", "urn:c18:fixed:b"], [P, AS, AI, AP], ("t", P))


def fixed_root():
    """bob: shares one int array between nums and nums2 (items untyped), one
    friend who is also his only kid"""
    leaf = lambda b, t, typed=True: Content("leaf", [("xsi", "type", ("q", "xsd", b, ""))] if typed else [], t, [],  # noqa
                                            ("leaf", BUILTINS[b], t), b)
    nums = Content("array", [("enc", "arrayType", ("q", "xsd", "int", "[2]"))], None,
                   [Elem("item", leaf("int", "1", False)), Elem("item", leaf("int", "2", False))],
                   ("arr", [("leaf", 1, "1"), ("leaf", 1, "2")]), "ArrayOfInt")
    ann = Content("struct", [("xsi", "type", ("q", ("u", 0), "Person", ""))], None,
                  [Elem("name", leaf("string", "ann")), Elem("age", leaf("int", "30", False))],
                  ("struct", "Person", [("name", ("leaf", 0, "ann")), ("age", ("leaf", 1, "30"))]), "Person")
    ann_item = Content("struct", [], None, ann.kids, ann.value, "Person")
    kids = Content("array", [("enc", "arrayType", ("q", ("u", 0), "Person", "[1]")),
                             ("xsi", "type", ("q", "enc", "Array", ""))], None,
                   [Elem("item", ann_item)], ("arr", [ann.value]), "ArrayOfPerson")
    empty = Content("array", [("enc", "arrayType", ("q", "xsd", "string", "[0]"))], None, [], ("arr", []),
                    "ArrayOfString")
    bob = Content("struct", [("xsi", "type", ("q", ("u", 0), "Person", ""))], None,
                  [Elem("name", leaf("string", "bob")), Elem("age", leaf("int", "7")), Elem("friend", ann),
                   Elem("tags", empty), Elem("nums", nums), Elem("nums2", nums), Elem("kids", kids)],
                  ("struct", "Person", [("name", ("leaf", 0, "bob")), ("age", ("leaf", 1, "7")), ("friend", ann.value),
                                        ("tags", ("arr", [])), ("nums", nums.value), ("nums2", nums.value),
                                        ("kids", kids.value)]), "Person")
    return Elem("return", bob)


def small_root():
    """a Person with a name and one int array of two items shared by nums and nums2: 6 occurrences"""
    leaf = lambda b, t, typed=True: Content("leaf", [("xsi", "type", ("q", "xsd", b, ""))] if typed else [], t, [],  # noqa
                                            ("leaf", BUILTINS[b], t), b)
    nums = Content("array", [("enc", "arrayType", ("q", "xsd", "int", "[2]"))], None,
                   [Elem("item", leaf("int", "1", False)), Elem("item", leaf("int", "2", False))],
                   ("arr", [("leaf", 1, "1"), ("leaf", 1, "2")]), "ArrayOfInt")
    bob = Content("struct", [("xsi", "type", ("q", ("u", 0), "Person", ""))], None,
                  [Elem("name", leaf("string", "bob")), Elem("nums", nums), Elem("nums2", nums)],
                  ("struct", "Person", [("name", ("leaf", 0, "bob")), ("nums", nums.value), ("nums2", nums.value)]),
                  "Person")
    return Elem("return", bob)


def payload_of(m):
    return {"wsdl": m["wsdl"].decode("utf-8"), "reply_inline": m["doc_in"].decode("utf-8"),
            "reply_outlined": m["doc_out"].decode("utf-8"), "decoded_inline": m["r_in"],
            "decoded_outlined": m["r_out"],
            "how": "client.service.f(__inject={'reply': <reply>}) for both replies; the results must be equal"}


def depth_of(e, memo=None):
    """nesting depth of the element tree (shared contents counted once)"""
    memo = {} if memo is None else memo
    c = e.content
    if id(c) not in memo:
        memo[id(c)] = 1 + max([depth_of(k, memo) for k in c.kids] or [0])
    return memo[id(c)]


def expanded_size(e, memo=None):
    """number of elements of the in-line document (a shared content is written once per use)"""
    memo = {} if memo is None else memo
    c = e.content
    if id(c) not in memo:
        memo[id(c)] = 1 + sum(expanded_size(k, memo) for k in c.kids)
    return memo[id(c)]


def occurrences(root):
    """the distinct element occurrences that can be written as references"""
    seen, out = set(), []

    def walk(e):
        if id(e) in seen:
            return
        seen.add(id(e))
        if e.content.kind != "nil":
            out.append(e)
        for k in e.content.kids:
            walk(k)
    walk(root)
    return out


def probe_prefix_rebinding(ck, client, wsdl):
    """Prefix handling is outside the infoset model.  Generated documents
    declare every prefix once (on the Envelope, or on the independent element
    that uses it, under a name nobody else uses).  Here: two independent
    elements bind the SAME prefix to different namespaces, which is
    namespace-well-formed XML; the in-line form nests the same declarations."""
    In = Interner()
    head = ('<e:Envelope xmlns:e="%s" xmlns:xsi="%s" xmlns:enc="%s" xmlns:a="urn:c18:fixed:a"><e:Body>' % (ENV, XSI, ENC))
    tail = '</e:Body></e:Envelope>'
    out = (head + '<a:fResponse><return href="#r"/></a:fResponse>'
           '<multiRef id="r" enc:root="0" xmlns:q="urn:c18:fixed:a" xsi:type="q:Person"><name>bob</name>'
           '<nums href="#n"/></multiRef>'
           '<multiRef id="n" enc:root="0" xmlns:q="%s" enc:arrayType="q:int[1]"><item>5</item></multiRef>' % XSD
           + tail).encode("utf-8")
    inl = (head + '<a:fResponse><return xmlns:q="urn:c18:fixed:a" xsi:type="q:Person"><name>bob</name>'
           '<nums xmlns:q="%s" enc:arrayType="q:int[1]"><item>5</item></nums></return></a:fResponse>' % XSD
           + tail).encode("utf-8")
    control = out.replace(b'xmlns:q="urn:c18:fixed:a" xsi:type="q:Person"', b'xmlns:q1="urn:c18:fixed:a" xsi:type="q1:Person"')
    r_out, s_out = run_impl(client, out, In)
    r_in, s_in = run_impl(client, inl, In)
    r_ctl, s_ctl = run_impl(client, control, In)
    ck.seen(("prefix-rebinding-probe", out))
    ck.seen(("prefix-rebinding-probe-control", control))
    ck.count("prefix-rebinding-probes", 2)
    pl = {"wsdl": wsdl.decode("utf-8"), "reply_inline": inl.decode("utf-8"), "reply_outlined": out.decode("utf-8"),
          "decoded_inline": s_in, "decoded_outlined": s_out,
          "how": "client.service.f(__inject={'reply': <reply>}) for both replies; the results must be equal"}
    if r_ctl != r_in:
        ck.failing_input(KEY_DIFFERS, "prefixes declared on the independent elements (distinct names): the out-lined reply "
                         "decodes to %s, the same reply in line to %s" % (s_ctl, s_in),
                         dict(pl, reply_outlined=control.decode("utf-8"), decoded_outlined=s_ctl))
    ck.extra["prefix_rebinding_probe"] = {"same_result": r_out == r_in, "decoded_outlined": s_out, "decoded_inline": s_in}
    # outside the guard of moved_attributes_keep_their_prefixes (Props.v, witness px_heap2): the independent
    # element uses a binding it inherits from the Envelope and the response element rebinds that prefix.
    # Recorded, not flagged (debatable; see rebound_on_referrer_path_refuted).
    head2 = head.replace('<e:Body>', '').replace('xmlns:a="urn:c18:fixed:a">', 'xmlns:a="urn:c18:fixed:a" xmlns:q="%s"><e:Body>' % XSD)
    out2 = (head2 + '<a:fResponse xmlns:q="urn:other"><return href="#r"/></a:fResponse>'
            '<multiRef id="r" enc:root="0" xsi:type="a:Person"><name>bob</name><nums href="#n"/></multiRef>'
            '<multiRef id="n" enc:root="0" enc:arrayType="q:int[1]"><item>5</item></multiRef>' + tail).encode("utf-8")
    inl2 = (head2 + '<a:fResponse><return xsi:type="a:Person"><name>bob</name>'
            '<nums enc:arrayType="q:int[1]"><item>5</item></nums></return></a:fResponse>' + tail).encode("utf-8")
    r_out2, s_out2 = run_impl(client, out2, In)
    r_in2, s_in2 = run_impl(client, inl2, In)
    ck.seen(("prefix-rebinding-probe-path", out2))
    ck.count("prefix-rebinding-probes")
    ck.extra["prefix_rebound_on_referrer_path"] = {"same_result": r_out2 == r_in2, "decoded_outlined": s_out2,
                                                   "decoded_inline": s_in2, "reply_outlined": out2.decode("utf-8")}
    if r_out != r_in:
        ck.failing_input(KEY_REBOUND, "two independent elements bind one prefix to different namespaces: the moved content "
                         "is resolved through the referrer and decodes to %s, in line to %s" % (s_out, s_in), pl)


def run(ck):
    common.force_repo_path()
    from . import sudsutil as U
    import logging
    logging.getLogger("suds").setLevel(logging.CRITICAL)

    ck.trusted = [
        "Coq 8.16.1 kernel + vm_compute; no axioms declared",
        "harness/c18.py: interface/value/out-lining generators, document writer, expat infoset -> heap printer, "
        "canonical form of decoded results",
        "expat (namespace mode) as the independent XML processor reading both replies (attribute namespaces, "
        "QNames inside xsi:type / arrayType resolved where they are written)",
    ]
    ck.notes = [
        "modelled in Coq: MultiRef.process/build_catalog/soaproot/update/replace_references on a heap with shared "
        "children, RPC.replycontent, Binding.get_reply for one returned part, Encoded.setaty/applyaty (mutating "
        "shared children)/promote/postprocess, Typed.start (declared child type, xsi:type wins, TypeNotFound), "
        "Core.append_attributes (AttrList.skip)/append_children/append_text/postprocess",
        "prefix handling: Prefix.v models Element.resolvePrefix over parent pointers, Element.promotePrefixes (one "
        "element against its parent) and replace_references at that level (children re-parented, the referenced "
        "node's declarations copied to the referrer since db8b9ec) with theorems and three witnesses; 30% of the "
        "random out-lined forms are Axis style (independent elements re-declare ONE prefix spelling locally for two "
        "different namespaces, in the placements inside the guard of moved_attributes_keep_their_prefixes); the decoding model itself works on the namespace infoset expat reports, and "
        "Element.promotePrefixes, shared Attribute objects and the xsi prefix applyaty declares are covered by "
        "correspondence only (prefixes declared on the Envelope or on the independent elements, three hand-written "
        "rebinding probes); soaparray.Attribute/wsdl:arrayType on the schema side; builtin "
        "translation (only canonical lexical forms are generated; C06's subject)",
        "outside the generated family (reported, not flagged): array items with different element names (promote "
        "keeps the first name's list), nil array items (dropped from the list), a reference to an element that is "
        "itself a reference, ids on elements below Body level, cyclic references (RecursionError)",
    ]
    proof_ok = ck.prove(THEOREMS) if THEOREMS else None

    rng = ck.rng
    quick = ck.tier == "quick"
    R = Runner(ck, U)

    def variants(client, wsdl, I, root, tag, n_out, markings=None, force_xsi=None):
        for j in range(n_out):
            pretty = rng.random() < 0.5
            st_in = Style(rng, I, False)
            st_out = Style(rng, I, rng.random() < 0.4)
            if force_xsi:
                st_out.p["xsi"] = force_xsi
            if rng.random() < 0.3:
                st_out.local_decls = True
                st_out.axis = ("ns5",) + tuple(rng.sample(["xsd", ("u", 0)], 2))
            marking = (markings or ["marked", "marked", "unmarked-after", "mixed"])[j % len(markings or [0] * 4)]
            if markings is None and rng.random() < 0.04:
                marking = "unmarked-before"
            p_out = rng.choice([0.15, 0.4, 0.7, 1.0])
            o = Outline(rng, root, I, p_out, marking, dangling=rng.random() < 0.12)
            R.add(client, wsdl, I, root, st_in, st_out, o, pretty, tag)

    # ---- fixed interface: every class named in the property and both KNOWN_FINDINGS entries
    I = fixed_iface()
    wsdl = render_wsdl(I)
    try:
        client = U.client_from_wsdl(wsdl)
        root = fixed_root()
        variants(client, wsdl, I, root, "fixed", 12 if quick else 40)
        variants(client, wsdl, I, root, "fixed-unmarked", 4, markings=["unmarked-before"])
        variants(client, wsdl, I, root, "fixed-xsi-prefix", 6, markings=["marked", "unmarked-after"], force_xsi="p3")
        probe_prefix_rebinding(ck, client, wsdl)
        # exhaustive: every subset of the occurrences of a value written as references
        # (quick: the 6 occurrences of a small value; thorough: all 13 of the hand-written one)
        xroot = root if not quick else small_root()
        occ = occurrences(xroot)
        ck.extra["exhaustive_occurrences"] = len(occ)
        for mask in range(1 << len(occ)):
            chosen = set(id(e) for k, e in enumerate(occ) if mask >> k & 1)
            marking = ["marked", "unmarked-after", "mixed"][mask % 3]
            o = Outline(rng, xroot, I, 0.0, marking, decide=lambda e: id(e) in chosen)
            st_x = Style(rng, I, mask % 4 in (1, 3))
            if mask % 4 == 3:
                st_x.axis = ("ns5",) + (("xsd", ("u", 0)) if mask % 8 == 3 else (("u", 0), "xsd"))
            R.add(client, wsdl, I, xroot, Style(rng, I, False), st_x, o, False, "exhaustive")
        ck.exhaustive = False
    except Exception as e:  # noqa
        ck.failing_input("C18:wsdl-load", "the hand-written rpc/encoded WSDL cannot be used: %r" % (e,),
                         {"wsdl": wsdl.decode("utf-8"), "error": repr(e)})

    # ---- generated interfaces
    n_if = 40 if quick else 200
    n_val = 4 if quick else 6
    n_out = 4 if quick else 8
    for k in range(n_if):
        I = gen_iface(rng, k)
        wsdl = render_wsdl(I)
        try:
            client = U.client_from_wsdl(wsdl)
        except Exception as e:  # noqa
            ck.failing_input("C18:wsdl-load", "generated rpc/encoded WSDL could not be loaded: %r" % (e,),
                             {"wsdl": wsdl.decode("utf-8"), "error": repr(e)})
            continue
        for v in range(n_val):
            G = ValueGen(rng, I, rng.choice([0.0, 0.3, 0.6]))
            root = Elem("return" if rng.random() < 0.8 else "fReturn",
                        G.content(I.ret, rng.choice([1, 2, 2, 3]), rng.choice([0.0, 0.5, 1.0, 1.0])))
            if root.content.kind == "nil" or depth_of(root) > 60 or expanded_size(root) > 200:
                ck.count("value-skipped-too-large")
                continue        # shared sub-values can stack up: keep clear of Python's recursion limit
            variants(client, wsdl, I, root, (k, v), n_out)

    cases = R.cases
    ck.extra["cases"] = len(cases)
    for m in [c[1] for c in cases[:1]] + [c[1] for c in cases[40:41]]:
        ck.sample({"reply_outlined": m["doc_out"].decode("utf-8")[:1500], "decoded": m["r_out"][:400]})

    preds = ["mr_agrees", "mr_spec_ok", "mr_same", "mr_shows", "gen_ok", "mr_instance",
             "fun c => negb (mr_guard c)", "mr_heap_ok"]
    res = ck.run_cases("mr", PRE, "mcase", [c for c, _ in cases], preds, shard=20)
    bad_gen = res["gen_ok"]
    if bad_gen:
        m = cases[bad_gen[0]][1]
        raise RuntimeError("harness bug: the in-line document is not the out-lined one with references replaced\n%s\n%s"
                           % (m["doc_in"].decode("utf-8"), m["doc_out"].decode("utf-8")))
    disagree = set(res["mr_agrees"])
    inst_bad = set(res["mr_instance"]) | set(res["mr_heap_ok"])
    in_guard = set(res[preds[6]])
    ck.extra["cases_inside_theorem_guard"] = len(in_guard)
    ck.extra["theorem_instance_failures"] = len(inst_bad)
    ck.extra["cases_hitting_unmarked_before"] = sum(1 for _, m in cases if m["unmarked_before"])

    spec_bad = sorted(res["mr_spec_ok"])
    # a dangling reference is blamed only when replies without one decode alike
    general = any((i in res["mr_same"]) and not cases[i][1]["dangling"] and not cases[i][1]["unmarked_before"]
                  for i in spec_bad)
    for i in spec_bad:
        m = cases[i][1]
        pl = payload_of(m)
        not_same = i in res["mr_same"]
        not_shown = i in res["mr_shows"]
        if m["unmarked_before"] and i not in disagree and not not_shown and not_same:
            ck.failing_input(KEY_UNMARKED, "an independent element without SOAP-ENC:root='0' placed before the rpc "
                             "response element is decoded as the reply", pl)
        elif not_shown:
            ck.failing_input(KEY_ARRAY if "arrayType" in m["doc_in"].decode("utf-8") else KEY_INLINE,
                             "the reply with everything in line does not decode to the value it was written from "
                             "(arrays as lists of items of the type named by arrayType, empty arrays as empty lists): %s"
                             % m["r_in"][:300], pl)
        elif not_same and m["shared"] and m["xsi_prefix"] != "xsi" and "_type" in m["r_out"]:
            ck.failing_input(KEY_SHARED_ARRAY, "items of an array referent shared by several referrers decode as objects "
                             "with _type: %s" % m["r_out"][:300], pl)
        elif not_same and m["dangling"] and not general:
            ck.failing_input(KEY_DANGLING, "an href without matching id changes more than that element: %s vs %s"
                             % (m["r_out"][:200], m["r_in"][:200]), pl)
        elif not_same:
            ck.failing_input(KEY_DIFFERS, "the out-lined reply decodes to %s, the same reply in line to %s"
                             % (m["r_out"][:300], m["r_in"][:300]), pl)
        else:
            ck.failing_input(KEY_DIFFERS, "the out-lined reply does not decode to the decoding of its references "
                             "replaced by the referenced content: %s" % m["r_out"][:300], pl)

    ck.rule = ("one hand-written interface (Person with string/int accessors, nillable Person, empty string array, one "
               "int array shared by two accessors with untyped items, array of Person) in %d random out-lined forms incl. "
               "unmarked independent elements before the response and XMLSchema-instance bound to another prefix; "
               "EXHAUSTIVE: all 2^%d subsets of the occurrences of %s written as references (marked / unmarked-after / "
               "mixed, prefixes on the Envelope or on the independent elements); one probe with two independent "
               "elements binding one prefix to two namespaces (outside Coq); "
               "%d generated rpc/encoded interfaces (1-2 namespaces, 1-3 struct types, arrays of builtin/struct/array "
               "items, recursive types) x %d values (depth 1-3, shared sub-values, nil and absent accessors, empty "
               "arrays, typed/untyped elements and items) x %d out-lined forms: each occurrence in line or href "
               "(p in {.15,.4,.7,1}), shared or copied referents, 8 id spellings, independent elements named "
               "multiRef/item/ref/Object/type name, shuffled, before/after the response, marked root=0/false, unmarked, "
               "mixed, response marked root=1 or not, prefixes on the Envelope or on each independent element, Axis "
               "style in 30%% (one spelling re-declared locally for two namespaces on sibling independent elements), 4-7 "
               "spellings of each prefix, compact/indented, dangling href in 12%%; distinct = (value, out-lined "
               "document); non-trivial = at least one reference"
               % ((12 if quick else 40) + 10, ck.extra.get("exhaustive_occurrences", 0),
                  "a small value (Person: name, one int array shared by two accessors)" if quick
                  else "the hand-written value", n_if, n_val, n_out))
    if proof_ok is False:
        ck.unproved("proof obligation of C18 no longer checks: " + ck.proof_log[-1500:], {"log": ck.proof_log[-3000:]})
    dis = sorted(disagree | inst_bad)
    dis = [i for i in dis if i not in res["mr_spec_ok"] or i in disagree]
    if dis and not any(not v[3] for v in ck.violations):
        m = cases[dis[0]][1]
        ck.unproved("model/implementation correspondence of C18 no longer holds: the implementation is no longer the "
                    "algorithm the theorems are about (%d cases; first: out-lined %s, in line %s)"
                    % (len(dis), m["r_out"][:200], m["r_in"][:200]),
                    {"correspondence": "mr_agrees", "count": len(dis), "first": payload_of(m)})
    elif dis:
        ck.extra["model_disagreements"] = len(dis)


# ---------------------------------------------------------------------------
# replay
# ---------------------------------------------------------------------------

def replay(ck, payload):
    common.force_repo_path()
    from . import sudsutil as U
    import logging
    logging.getLogger("suds").setLevel(logging.CRITICAL)
    print(payload.get("what"))
    if "wsdl" not in payload or "reply_outlined" not in payload:
        print(json.dumps(payload, indent=1)[:3000])
        return 0
    client = U.client_from_wsdl(payload["wsdl"].encode("utf-8"))
    In = Interner()
    for k in ("reply_inline", "reply_outlined"):
        print("---- %s\n%s" % (k, payload[k]))
        print("now decodes to:", run_impl(client, payload[k].encode("utf-8"), In)[1])
    return 0
