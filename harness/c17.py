"""C17 — SOAP headers and security tokens are sent as configured, every time.

Proof: coq/C17/Props.v over the model coq/C17/Headers.v (Binding.headercontent /
mkheader / header, suds.wsse .xml(); header entries go through C01's
marshal_elem, dateTime texts through C06's iso_datetime).
Tie to the code: generated WSDLs with 0..3 declared header parts per operation
(global elements of simple/complex type in several namespaces, parts declared
with type=) x every soapheaders shape x wsse token configurations x call
sequences reusing the same objects; the Header subtree of the request is read
back with expat and handed to Coq together with the configuration.
"""
import copy
import datetime
import decimal
import json
import re

from . import common, family as F
from .common import cN, cZ, cnat, cbool, clist, copt, cstr

THEOREMS = [
    "headers_as_configured", "sent_as_configured", "entries_named_and_qualified_by_their_declaration",
    "list_entry_one_element_per_item", "plain_value_one_element", "positional_none_leaves_part_out",
    "surplus_values_skipped_elements_kept", "element_value_sent_verbatim",
    "request_parts_are_the_input_side", "reply_header_parts_not_in_request",
    "caller_objects_untouched", "repeat_same", "wsse_one_security", "wsse_timestamps_lexical",
    "repaired_is_current", "list_header_regression", "surplus_then_element_regression",
    "positional_none_regression", "positional_none_type_part_regression",
]

PRE = "From SV Require Import Lib.Base Fam.Schema C01.Marshal C01.Guard C06.DateTime C17.Headers."

WSSE = "http://docs.oasis-open.org/wss/2004/01/oasis-200401-wss-wssecurity-secext-1.0.xsd"
WSU = "http://docs.oasis-open.org/wss/2004/01/oasis-200401-wss-wssecurity-utility-1.0.xsd"
# constants of the WSS UsernameToken profile 1.0 / SOAP message security 1.0 (from the OASIS texts)
WSTEXT = "http://docs.oasis-open.org/wss/2004/01/oasis-200401-wss-username-token-profile-1.0#PasswordText"
WSDIGEST = "http://docs.oasis-open.org/wss/2004/01/oasis-200401-wss-username-token-profile-1.0#PasswordDigest"
B64 = "http://docs.oasis-open.org/wss/2004/01/oasis-200401-wss-soap-message-security-1.0#Base64Binary"
STAMP = "#stamp"

FIXED_NAMES = ["text:", "text:" + STAMP, "Security", "UsernameToken", "Username", "Password", "Nonce", "Created",
               "Timestamp", "Expires", "Type", "EncodingType", "mustUnderstand", "text:" + WSTEXT,
               "text:" + WSDIGEST, "text:" + B64, "text:false"]

KEY_LIST = "C17:list-valued-header-entry"
KEY_SURPLUS = "C17:element-after-surplus-values-dropped"
KEY_NONE = "C17:positional-none-sends-empty"
KEY_NONE_TYPE = "C17:positional-none-type-part-raises"
KEY_REBIND = "C17:ready-made-element-prefix-rebinding-captured"
KEY_REPLY_PART = "C17:reply-header-part-sent-in-request"

# The four defects repaired in /repo (02a92ff, dfdc017, c4ebdf6), in the order of the switches of
# `quirks` in coq/C17/Headers.v (q_list, q_skipped, q_break, q_none).  The model no longer has any
# of them: an implementation that shows one again fails the specification and is reported under
# the defect's own key.
REPAIRED = [
    (KEY_LIST, "a list-valued header entry raises AttributeError instead of sending one element per item"),
    (KEY_NONE_TYPE, "a value the marshaller leaves out (None for an optional part declared with type=) raises "
                    "AttributeError instead of adding nothing"),
    (KEY_SURPLUS, "a ready-made Element after more plain values than declared parts is dropped"),
    (KEY_NONE, "a positional None sends an empty element instead of omitting the part"),
]


def quirk_combos():
    """every non-empty combination of the four switches, fewest switches first"""
    combos = [tuple(bool(m >> k & 1) for k in range(4)) for m in range(1, 16)]
    return sorted(combos, key=lambda c: (sum(c), [not x for x in c]))


def c_quirks(c):
    return "hdr_agrees_q (mkQ %s)" % " ".join(cbool(x) for x in c)


def new_interner():
    I = F.new_interner()
    for k, s in enumerate(FIXED_NAMES):
        assert I(s) == 4 + k, (s, I(s))
    return I


class NSMap(object):
    """namespace URI -> Coq nsid, in the shape family.ns_to_id expects:
    ids 1.. = the schema's namespaces, 110/111 = wsse/wsu, 112.. = others."""

    def __init__(self, S):
        self.namespaces = list(S.namespaces)
        self.namespaces += [("\x00pad%d" % i, False) for i in range(len(self.namespaces), 109)]
        self.namespaces += [(WSSE, False), (WSU, False)]
        self.known = set(u for u, _ in self.namespaces) | set([None, F.XSI, F.SOAPENV, F.XSD, F.SOAPENC])

    def register(self, node):
        for u in [node.ns] + [k[0] for k in node.attrs]:
            if u not in self.known:
                self.known.add(u)
                self.namespaces.append((u, False))
        for c in node.elements():
            self.register(c)


# ---------------------------------------------------------------------------
# abstract configuration (everything needed to rebuild the Python objects)
# ---------------------------------------------------------------------------

class XT(object):
    """A ready-made element the caller builds: prefix/uri (uri None = no
    namespace, prefix None + uri = default namespace declaration)."""

    def __init__(self, name, prefix=None, uri=None, attrs=(), text=None, kids=()):
        self.name, self.prefix, self.uri = name, prefix, uri
        self.attrs = list(attrs)        # (prefix or None, uri or None, local, value)
        self.text = text
        self.kids = list(kids)

    def expr(self):
        return "XT(%r, %r, %r, %r, %r, [%s])" % (self.name, self.prefix, self.uri, self.attrs, self.text,
                                                  ", ".join(k.expr() for k in self.kids))

    def build(self):
        from suds.sax.element import Element
        if self.uri is not None:
            e = Element(self.name, ns=(self.prefix, self.uri))
        else:
            e = Element(self.name)
        for (p, u, local, value) in self.attrs:
            if p is not None:
                e.addPrefix(p, u)
                e.set("%s:%s" % (p, local), value)
            else:
                e.set(local, value)
        if self.text is not None:
            e.setText(self.text)
        for k in self.kids:
            e.append(k.build())
        return e


class TList(list):
    """A multi-valued header entry the caller hands over as a TUPLE (a plain list = a Python list).
    The model's VList stands for both; only the object built for suds differs."""


def value_expr(v):
    """Python source rebuilding an abstract value (family conventions)."""
    if v is None:
        return "None"
    if isinstance(v, TList):
        return "TList([%s])" % ", ".join(value_expr(x) for x in v)
    if isinstance(v, tuple) and v[0] == "elem":
        return "('elem', %d)" % v[1]
    if isinstance(v, tuple) and v[0] == "leaf":
        return "('leaf', %r, %r)" % (v[1], v[2])
    if isinstance(v, list):
        return "[%s]" % ", ".join(value_expr(x) for x in v)
    return "VObj(%r, [%s])" % (v.ty, ", ".join("(%r, %s)" % (k, value_expr(x)) for k, x in v.fields))


class Tok(object):
    """Abstract token configuration: how the caller sets it up."""

    def __init__(self, kind, **kw):
        self.kind = kind            # "user" | "stamp"
        self.kw = kw

    def expr(self):
        return "Tok(%r, **%r)" % (self.kind, self.kw)

    def build(self):
        from suds.wsse import UsernameToken, Timestamp
        kw = self.kw
        if self.kind == "stamp":
            t = Timestamp(kw["validity"])
            if kw.get("created") is not None:
                t.created = mkdt(kw["created"])
                t.expires = t.created + datetime.timedelta(seconds=kw["validity"])
            return t
        t = UsernameToken(kw.get("username"), kw.get("password"))
        if "digest" in kw:
            t.setpassworddigest(kw["digest"])
        if "nonce" in kw:
            t.setnonce(kw["nonce"])           # None = generated
        if "enc" in kw:
            t.setnonceencoding(kw["enc"])
        if "created" in kw:
            t.setcreated(mkdt(kw["created"]))       # None = now
        return t


# ---------------------------------------------------------------------------
# generators
# ---------------------------------------------------------------------------

STRINGS = ["alice", "", "p&w<d>", "ünï çødé", " lead", "trail ", "a\nb", "\"q'", "x" * 40,
           "0", "]]>", "日本語", "a  b", "SGVsbG8=", "a&b;c", "<!-- x -->", "\t"]
URIS = ["urn:q", "urn:other:hdr", "http://example.org/h", "urn:fam:ns0", "urn:z"]
PREFIXES = ["p", "q", "tns", "ns0", "ns1", "t0", "t1", "h", "SOAP-ENV", "wsse"]


def gen_xt(rng, depth=0):
    mode = rng.randrange(4)
    if mode == 0:
        prefix, uri = None, None
    elif mode == 1:
        prefix, uri = None, rng.choice(URIS)             # default namespace
    else:
        prefix, uri = rng.choice(PREFIXES), rng.choice(URIS)
    used = {prefix: uri} if prefix else {}
    attrs = []
    for _ in range(rng.choice([0, 0, 1, 2])):
        local = "k%d" % len(attrs)
        if rng.random() < 0.4:
            p = rng.choice(PREFIXES)
            u = used.get(p) or rng.choice(URIS)          # a prefix means one thing within an element
            used[p] = u
            attrs.append((p, u, local, rng.choice(STRINGS[:10])))
        else:
            attrs.append((None, None, local, rng.choice(STRINGS[:10])))
    kids = []
    text = None
    if depth < 2 and rng.random() < 0.45:
        for _ in range(rng.randrange(1, 3)):
            kids.append(gen_xt_child(rng, depth + 1, used))
    elif rng.random() < 0.6:
        text = rng.choice([s for s in STRINGS if s.strip()])
    return XT("x%d" % rng.randrange(4), prefix, uri, attrs, text, kids)


def gen_xt_child(rng, depth, used):
    """children never rebind a prefix their ancestors use (prefix rebinding
    inside one element is the business of C02/C05)"""
    mode = rng.randrange(3)
    if mode == 0:
        prefix, uri = None, None
    else:
        prefix = rng.choice(PREFIXES)
        uri = used.get(prefix) or rng.choice(URIS)
        used[prefix] = uri
    kids = []
    text = None
    if depth < 2 and rng.random() < 0.3:
        kids.append(gen_xt_child(rng, depth + 1, used))
    elif rng.random() < 0.7:
        text = rng.choice([s for s in STRINGS if s.strip()])
    attrs = [(None, None, "a", rng.choice(STRINGS[:6]))] if rng.random() < 0.3 else []
    return XT("y%d" % rng.randrange(3), prefix, uri, attrs, text, kids)


class Part(object):
    """A declared header part: a global element (kind 'elem') or a part
    declared with type= (kind 'type')."""

    def __init__(self, kind, name, elem, partname):
        self.kind, self.name, self.elem, self.partname = kind, name, elem, partname

    def key(self):
        return self.name            # what a dict is keyed by


def gen_parts(rng, S, nparts, counter):
    parts = []
    for _ in range(nparts):
        counter[0] += 1
        k = counter[0]
        if S.types and rng.random() < 0.55:
            t = rng.choice(S.types)
            tref = ("n", t.ns, t.name)
        else:
            tref = ("b", rng.choice(F.BUILTINS))
        if rng.random() < 0.22:
            e = F.Elem("hp%d" % k, 0, False, tref, opt=True)
            parts.append(Part("type", "hp%d" % k, e, "hp%d" % k))
        else:
            ns = rng.randrange(len(S.namespaces))
            e = F.Elem("H%d" % k, ns, True, tref, nillable=rng.random() < 0.2)
            parts.append(Part("elem", "H%d" % k, e, "part%d" % k))
    return parts


def invoke(client, cname):
    """cname: 'op' (default port) or 'port2/op' (the same operation through the second port)."""
    if "/" in cname:
        port, op = cname.split("/", 1)
        return getattr(client.service[port], op)()
    return getattr(client.service, cname)()


def render_wsdl(S, ops, R=None, ops2=None, outs=None):
    """ops: [(name, [Part])]; every operation has an empty input message and
    one soap:header per declared part, in order.  ops2: optional {name: [Part]} — the
    same port type is then also exposed through a second binding `b2` / port `port2`
    that declares those header parts (taken from the same header message) instead.
    outs: optional {name: [Part]} — the operation then has an (empty) output message and
    its wsdl:output declares one soap:header per listed part, in order: a Part that is also
    an input part refers to the same message part, any other lives in a message of its own."""
    R = R or F.Renderer(S)
    p0 = R.prefixes[0]
    globals_ = dict((i, []) for i in range(len(S.namespaces)))
    msgs, pops, bops = [], [], []
    outs = outs or {}
    declared = set()

    def message_parts(parts):
        hparts = []
        for p in parts:
            if p.kind == "elem" and (p.elem.ns, p.name) in declared:
                hparts.append('<wsdl:part name="%s" element="%s:%s"/>' % (p.partname, R.prefixes[p.elem.ns], p.name))
            elif p.kind == "elem":
                declared.add((p.elem.ns, p.name))
                globals_[p.elem.ns].append('      <xsd:element name="%s" type="%s"%s/>' % (
                    p.name, R.tref(p.elem.tref), ' nillable="true"' if p.elem.nillable else ""))
                hparts.append('<wsdl:part name="%s" element="%s:%s"/>' % (p.partname, R.prefixes[p.elem.ns], p.name))
            else:
                hparts.append('<wsdl:part name="%s" type="%s"/>' % (p.partname, R.tref(p.elem.tref)))
        return "".join(hparts)
    for name, parts in ops:
        msgs.append('  <wsdl:message name="%sIn"/>' % name)
        msgs.append('  <wsdl:message name="%sHdr">%s</wsdl:message>' % (name, message_parts(parts)))
        hdrs = "".join('<soap:header message="%s:%sHdr" part="%s" use="literal"/>' % (p0, name, p.partname)
                       for p in parts)
        pt_out = b_out = ""
        if name in outs:
            own = [p for p in outs[name] if p not in parts]
            msgs.append('  <wsdl:message name="%sOut"/>' % name)
            msgs.append('  <wsdl:message name="%sOutHdr">%s</wsdl:message>' % (name, message_parts(own)))
            pt_out = '<wsdl:output message="%s:%sOut"/>' % (p0, name)
            b_out = '<wsdl:output><soap:body use="literal"/>%s</wsdl:output>' % "".join(
                '<soap:header message="%s:%s%s" part="%s" use="literal"/>'
                % (p0, name, "Hdr" if p in parts else "OutHdr", p.partname) for p in outs[name])
        pops.append('    <wsdl:operation name="%s"><wsdl:input message="%s:%sIn"/>%s</wsdl:operation>'
                    % (name, p0, name, pt_out))
        bops.append('    <wsdl:operation name="%s"><soap:operation soapAction="act_%s" style="document"/>'
                    '<wsdl:input><soap:body use="literal"/>%s</wsdl:input>%s</wsdl:operation>'
                    % (name, name, hdrs, b_out))
    second_binding = second_port = ""
    if ops2 is not None:
        bops2 = []
        for name, _ in ops:
            hdrs = "".join('<soap:header message="%s:%sHdr" part="%s" use="literal"/>' % (p0, name, p.partname)
                           for p in ops2[name])
            bops2.append('    <wsdl:operation name="%s"><soap:operation soapAction="act2_%s" style="document"/>'
                         '<wsdl:input><soap:body use="literal"/>%s</wsdl:input>%s</wsdl:operation>'
                         % (name, name, hdrs, '<wsdl:output><soap:body use="literal"/></wsdl:output>'
                            if name in outs else ""))
        second_binding = ('  <wsdl:binding name="b2" type="%s:pt">\n'
                          '    <soap:binding style="document" transport="http://schemas.xmlsoap.org/soap/http"/>\n%s\n'
                          '  </wsdl:binding>\n' % (p0, "\n".join(bops2)))
        second_port = ('\n    <wsdl:port name="port2" binding="%s:b2"><soap:address '
                       'location="http://unused.invalid/svc2"/></wsdl:port>' % p0)
    blocks = [R.schema_block(i, "\n".join(globals_[i])) for i in range(len(S.namespaces))]
    return ("""<?xml version='1.0' encoding='UTF-8'?>
<wsdl:definitions targetNamespace="%s" %s
 xmlns:soap="http://schemas.xmlsoap.org/wsdl/soap/"
 xmlns:wsdl="http://schemas.xmlsoap.org/wsdl/"
 xmlns:xsd="http://www.w3.org/2001/XMLSchema">
  <wsdl:types>
%s
  </wsdl:types>
%s
  <wsdl:portType name="pt">
%s
  </wsdl:portType>
  <wsdl:binding name="b" type="%s:pt">
    <soap:binding style="document" transport="http://schemas.xmlsoap.org/soap/http"/>
%s
  </wsdl:binding>
%s  <wsdl:service name="svc">
    <wsdl:port name="port" binding="%s:b"><soap:address location="http://unused.invalid/svc"/></wsdl:port>%s
  </wsdl:service>
</wsdl:definitions>
""" % (S.namespaces[0][0], R.nsdecls(), "\n".join(blocks), "\n".join(msgs), "\n".join(pops), p0,
       "\n".join(bops), second_binding, p0, second_port)).encode("utf-8")


def gen_part_value(rng, S, part):
    for _ in range(20):
        v = F.gen_value(rng, S, part.elem, depth=1)
        if v is not None and not isinstance(v, list):
            return v
    return ("leaf", "x", "x")


class Headers(object):
    """Abstract soapheaders: kind 'unset' | 'one' | 'seq' | 'dict'.
    items (one/seq): ('elem', index into xts) | ('val', abstract value);
    items (dict): (key, abstract value | ('elem', index into xts): a ready-made Element as the
    VALUE of that part).  container: 'tuple' | 'list'."""

    def __init__(self, kind, items=(), xts=(), container="tuple"):
        self.kind, self.items, self.xts, self.container = kind, list(items), list(xts), container

    def expr(self):
        def it(x):
            return "('elem', %d)" % x[1] if x[0] == "elem" else "('val', %s)" % value_expr(x[1])
        if self.kind == "dict":
            items = ", ".join("(%r, %s)" % (k, value_expr(v)) for k, v in self.items)
        else:
            items = ", ".join(it(x) for x in self.items)
        return "Headers(%r, [%s], [%s], %r)" % (self.kind, items, ", ".join(x.expr() for x in self.xts),
                                                 self.container)


def gen_xt_for_part(rng, S, part):
    """a ready-made element written the way the declared part would be (its name and
    namespace), under a prefix of the caller's own that its children use too"""
    uri = S.namespaces[part.elem.ns][0] if part.kind == "elem" else None
    prefix = rng.choice(["x", "h", "own"]) if uri else None
    kids = [XT("user%d" % j, prefix, uri, [], rng.choice(["bob", "a&b", "7"]), []) for j in range(rng.randrange(3))]
    attrs = [(None, None, "id", "7")] if rng.random() < 0.5 else []
    return XT(part.name, prefix, uri, attrs, None if kids else rng.choice([None, "tok"]), kids)


def gen_headers(rng, S, parts, force=None, out_parts=()):
    """force: None | 'list' | 'surplus' | 'none' | 'elemvalue' — make that shape certain.
    out_parts: header parts the operation declares for its REPLY only."""
    k = len(parts)
    xts = []

    def elem_item():
        if xts and rng.random() < 0.2:
            return ("elem", rng.randrange(len(xts)))        # the same object twice
        xts.append(gen_xt(rng))
        return ("elem", len(xts) - 1)

    def plain(j, allow_special=True):
        if j >= k:
            return ("leaf", "surplus%d" % j, "surplus%d" % j)
        v = gen_part_value(rng, S, parts[j])
        if allow_special:
            r = rng.random()
            if r < 0.10:
                return None
            if r < 0.18:
                return gen_list(j)
        return v

    def gen_list(j, sizes=(0, 1, 2, 2)):
        """a list-valued entry for part j; now and then with an item that is None"""
        l = [gen_part_value(rng, S, parts[j]) for _ in range(rng.choice(sizes))]
        if rng.random() < 0.3:
            l.insert(rng.randrange(len(l) + 1), None)
        return TList(l) if rng.random() < 0.5 else l       # the container type: tuple | list

    r = rng.random()
    if force is None and r < 0.06:
        return Headers("unset")
    if force is None and r < 0.22:
        # a single value: for the first part, a ready-made element, or None
        q = rng.random()
        if q < 0.25:
            return Headers("one", [elem_item()], xts)
        if q < 0.32:
            return Headers("one", [("val", None)], xts)
        v = plain(0, allow_special=False)
        if isinstance(v, F.VObj) and v.ty is None:
            # a plain dict would BE the dict form of soapheaders: a single object value is a factory object
            v = F.VObj((parts[0].elem.tref[1], parts[0].elem.tref[2]), v.fields)
        return Headers("one", [("val", v)], xts)
    if (force is None and r < 0.50) or (force == "elemvalue" and parts):
        items = []
        for j, p in enumerate(parts):
            q = rng.random()
            if q < 0.15 or (force == "elemvalue" and not any(isinstance(v, tuple) and v[0] == "elem" for _, v in items)
                            and (q < 0.5 or j == k - 1)):
                # a ready-made Element as the value of the part (now and then the same object for two parts)
                if rng.random() < 0.5:
                    xts.append(gen_xt_for_part(rng, S, p))
                    items.append((p.key(), ("elem", len(xts) - 1)))
                else:
                    items.append((p.key(), elem_item()))
            elif q < 0.70:
                items.append((p.key(), plain(j)))
            # else: key absent
        for p in out_parts:
            # a client-wide dict also carries values meant for other operations / the reply's parts
            if p not in parts and rng.random() < 0.6:
                items.append((p.key(), gen_part_value(rng, S, p)))
        if rng.random() < 0.08:
            items.append(("nosuchpart", ("leaf", "zz", "zz")))
        rng.shuffle(items)
        return Headers("dict", items, xts)
    # a sequence
    nvals = rng.choice([0, max(k - 1, 0), k, k, k, k + 1, k + 2])
    if force == "surplus":
        nvals = k + rng.choice([1, 2])
    if force in ("list", "none") and k:
        nvals = max(nvals, 1)
    items = [("val", plain(j, allow_special=(force is None))) for j in range(nvals)]
    if force == "list" and k:
        j = rng.randrange(min(k, nvals))
        items[j] = ("val", gen_list(j, (0, 1, 2)))
    if force == "none" and k:
        j = rng.randrange(min(k, nvals))
        items[j] = ("val", None)
    nel = rng.choice([0, 0, 1, 1, 2, 3])
    for _ in range(nel):
        items.insert(rng.randrange(len(items) + 1), elem_item())
    if force == "surplus":
        items.append(elem_item())
    return Headers("seq", items, xts, rng.choice(["tuple", "list"]))


TZS = [None, "utc", 0, 60, -300, 330, 345, -840, 840, -30]      # XSD zones: -14:00 .. +14:00


def gen_dt(rng):
    """abstract datetime: ('dt', (y, mo, d, h, mi, s, us), None | 'utc' | minutes east)"""
    y = rng.choice([1, 999, 1970, 2000, 2024, 2026, 9999])
    return ("dt", (y, rng.randrange(1, 13), rng.randrange(1, 29), rng.randrange(24), rng.randrange(60),
                   rng.randrange(60), rng.choice([0, 0, 1, 500000, 999999, rng.randrange(10 ** 6)])),
            rng.choice(TZS))


def mkdt(spec):
    """None and non-datetime values are passed through as they are"""
    if not (isinstance(spec, tuple) and spec and spec[0] == "dt"):
        return spec
    from suds.sax.date import UtcTimezone, FixedOffsetTimezone
    tz = spec[2]
    if tz == "utc":
        tz = UtcTimezone()
    elif tz is not None:
        tz = FixedOffsetTimezone(datetime.timedelta(minutes=tz))
    return datetime.datetime(*spec[1], tzinfo=tz)


def gen_wsse(rng):
    """None or (mustUnderstand, [Tok])"""
    if rng.random() < 0.45:
        return None
    toks = []
    for _ in range(rng.choice([0, 1, 1, 1, 2, 3])):
        if rng.random() < 0.3:
            kw = {"validity": rng.choice([0, 1, 10, 90, 3600, 86400 * 400])}
            if rng.random() < 0.5:
                c = gen_dt(rng)
                if c[1][0] < 9000:
                    kw["created"] = c
            toks.append(Tok("stamp", **kw))
            continue
        kw = {}
        r = rng.random()
        if r < 0.85:
            kw["username"] = rng.choice(STRINGS)
        if rng.random() < 0.7:
            kw["password"] = rng.choice(STRINGS)
        if rng.random() < 0.3:
            kw["digest"] = rng.choice(["SGVsbG8gd29ybGQ=", "d1&<g", "", "digest value"])
        if rng.random() < 0.55:
            # a generated nonce needs username and password to be strings
            kw["nonce"] = None if (rng.random() < 0.4 and "username" in kw and "password" in kw) \
                else rng.choice(STRINGS)
        if rng.random() < 0.5:
            kw["enc"] = rng.random() < 0.7
        if rng.random() < 0.6:
            q = rng.random()
            kw["created"] = None if q < 0.4 else ("not a date" if q < 0.45 else gen_dt(rng))
        toks.append(Tok("user", **kw))
    return (rng.random() < 0.8, toks)


# ---------------------------------------------------------------------------
# building the Python objects, printing the Coq terms
# ---------------------------------------------------------------------------

def build_headers(client, S, H):
    """-> (soapheaders value, caller Element objects, caller value objects)"""
    els = [x.build() for x in H.xts]
    vals = []

    def val(v):
        o = F.to_python(client, S, v)
        if isinstance(v, TList):
            o = tuple(o)
        vals.append(o)
        return o
    if H.kind == "unset":
        return (), els, vals
    if H.kind == "dict":
        return dict((k, els[v[1]] if isinstance(v, tuple) and v[0] == "elem" else val(v)) for k, v in H.items), els, vals
    objs = [els[x[1]] if x[0] == "elem" else val(x[1]) for x in H.items]
    if H.kind == "one":
        return objs[0], els, vals
    return (tuple(objs) if H.container == "tuple" else objs), els, vals


def build_wsse(W):
    if W is None:
        return None
    from suds.wsse import Security
    s = Security()
    s.mustUnderstand = W[0]
    for t in W[1]:
        s.tokens.append(t.build())
    return s


def c_tz(tz):
    if tz is None:
        return "TzNone"
    off = tz.utcoffset(None)
    if off is None:
        return "TzNone"
    mins = off.days * 1440 + off.seconds // 60
    return "TzUtc" if mins == 0 else "(TzFixed %s)" % cZ(mins)


def c_dtv(v):
    if isinstance(v, datetime.datetime):
        off = v.utcoffset()
        if off is None or (off.seconds % 60 == 0 and off.microseconds == 0):
            return "(DT (mkCivil %s %s %s) (mkTod %s %s %s %s) %s)" % (
                cZ(v.year), cZ(v.month), cZ(v.day), cZ(v.hour), cZ(v.minute), cZ(v.second), cZ(v.microsecond),
                c_tz(v.tzinfo))
    return "DTBad"


def c_wsse(sec, I):
    """the token fields as they are at call time"""
    if sec is None:
        return "None"
    from suds.wsse import UsernameToken, Timestamp

    def s(x):
        return copt(cN(I("text:" + x)) if isinstance(x, str) else None, "N")
    toks = []
    for t in sec.tokens:
        if isinstance(t, Timestamp):
            toks.append("(TStamp %s %s)" % (c_dtv(t.created), c_dtv(t.expires)))
        else:
            toks.append("(TUser (mkUT %s %s %s %s %s %s))" % (
                s(t.username), s(t.password), s(t.password_digest), s(t.nonce), cbool(bool(t.nonce_has_encoding)),
                copt(c_dtv(t.created) if t.created is not None else None, "dtv")))
    return "(Some (mkSec %s %s))" % (cbool(bool(sec.mustUnderstand)), clist(toks, "token"))


def c_part(P, p):
    return P.elem(p.elem)


def c_headers(P, H):
    def it(x):
        return "(HElem %s)" % cnat(x[1]) if x[0] == "elem" else "(HVal %s)" % P.value(x[1])
    if H.kind == "unset":
        return "(SHSeq [])"
    if H.kind == "one":
        return "(SHOne %s)" % it(H.items[0])
    if H.kind == "dict":
        return "(SHDict %s)" % clist(
            ["(%s, %s)" % (cN(P.I(k)), "(HElem %s)" % cnat(v[1]) if isinstance(v, tuple) and v[0] == "elem"
                           else "(HVal %s)" % P.value(v)) for k, v in H.items], "name * hval")
    return "(SHSeq %s)" % clist([it(x) for x in H.items], "hval")


def strip_stamps(node, out):
    """replace the dateTime texts of wsu:Created / wsu:Expires by the
    placeholder, collecting them in document order"""
    for c in node.elements():
        if c.ns == WSU and c.name in ("Created", "Expires") and not c.elements():
            out.append(c.own_text())
            c.children = [STAMP]
        else:
            strip_stamps(c, out)


XSD_DATETIME = re.compile(r"^-?([1-9][0-9]{3,}|0[0-9]{3})-(0[1-9]|1[0-2])-(0[1-9]|[12][0-9]|3[01])"
                          r"T(([01][0-9]|2[0-3]):[0-5][0-9]:[0-5][0-9](\.[0-9]+)?|(24:00:00(\.0+)?))"
                          r"(Z|(\+|-)((0[0-9]|1[0-3]):[0-5][0-9]|14:00))?$")      # XSD 1.1 part 2, 3.3.7
BASE64 = re.compile(r"^([A-Za-z0-9+/]{4})*([A-Za-z0-9+/]{2}==|[A-Za-z0-9+/]{3}=)?$")


def features(parts, H):
    """which of the input classes of the four repaired defects the configuration exercises
    (coverage accounting, and the fallback for naming a defect that returned)"""
    f = set()
    k = len(parts)

    def entry(part, v):
        if isinstance(v, list):
            f.add(KEY_LIST)
            if part.kind == "type" and any(x is None for x in v):
                f.add(KEY_NONE_TYPE)          # an item the marshaller leaves out
    if H.kind in ("one", "seq"):
        items = H.items
        if H.kind == "one" and items[0] == ("val", None):
            return f
        n = 0
        surplus = False
        for x in items:
            if x[0] == "elem":
                if surplus:
                    f.add(KEY_SURPLUS)
                continue
            if n == k:
                surplus = True
                continue
            if x[1] is None:
                f.add(KEY_NONE if parts[n].kind == "elem" else KEY_NONE_TYPE)
            else:
                entry(parts[n], x[1])
            n += 1
    elif H.kind == "dict":
        d = dict(H.items)
        for p in parts:
            if d.get(p.key()) is not None and not (isinstance(d[p.key()], tuple) and d[p.key()][0] == "elem"):
                entry(p, d[p.key()])
    return f


def err_class(e):
    import suds
    if isinstance(e, AttributeError):
        return "EAttr"
    if isinstance(e, suds.TypeNotFound):
        return "ETypeNotFound"
    return "EOther"


def snap_value(o):
    try:
        return (type(o).__name__, str(o) if hasattr(o, "__keylist__") else repr(o))
    except Exception as e:   # noqa
        return ("unprintable", repr(e))


class Runner(object):
    def __init__(self, ck):
        self.ck = ck
        self.cases = []       # (coq term, meta)

    def run_config(self, tag, client, wsdl, S, ops, H, W, calls, xstq, outs=None):
        """ops: {name: [Part]} (the soap:header parts of wsdl:input, as rendered); outs: {name: [Part]}
        (those of wsdl:output); calls: list of operation names (same objects
        reused for every call).  Appends one case per operation called."""
        outs = outs or {}
        from . import sudsutil as U
        ck = self.ck
        try:
            sh, els, vals = build_headers(client, S, H)
            sec = build_wsse(W)
            client.set_options(soapheaders=sh, wsse=sec, xstq=xstq)
        except Exception as e:  # noqa
            ck.count("config-not-built")
            ck.extra.setdefault("config_not_built", []).append(repr(e)[:200])
            return
        ns = NSMap(S)
        before_nodes = []
        try:
            for e in els:
                n = U.expat_parse(str(e).encode("utf-8"))
                ns.register(n)
                before_nodes.append(n)
        except Exception as e:  # noqa
            ck.count("caller-element-not-serialisable")
            return
        before_vals = [snap_value(o) for o in vals]
        before_txt = [str(e) for e in els]
        per_op = {}
        raws = []
        py_findings = []
        for cname in calls:
            stamps = []
            raw = None
            try:
                ctx = invoke(client, cname)
                raw = ctx.envelope
                env = U.expat_parse(raw)
                hdr = env.find("Header", F.SOAPENV)
                if env.name != "Envelope" or env.ns != F.SOAPENV or hdr is None:
                    raise ValueError("no SOAP Header in the request")
                for c in hdr.elements():
                    if c.ns == WSSE and c.name == "Security":
                        strip_stamps(c, stamps)
                ns.register(hdr)
                res = ("ok", hdr.elements(), stamps)
            except Exception as e:  # noqa
                res = ("err", err_class(e), repr(e))
            after = []
            try:
                for e in els:
                    n = U.expat_parse(str(e).encode("utf-8"))
                    ns.register(n)
                    after.append((n, e.parent is not None))
            except Exception as e:  # noqa
                after = None
            # Python-level snapshots of everything the caller handed over
            if [str(e) for e in els] != before_txt:
                py_findings.append(("C17:caller-object-altered", "a caller-supplied Element reads differently after the call"))
            if [snap_value(o) for o in vals] != before_vals:
                py_findings.append(("C17:caller-object-altered", "a caller-supplied header value reads differently after the call"))
            for s_ in stamps:
                if not XSD_DATETIME.match(s_):
                    py_findings.append(("C17:timestamp-not-xsd-datetime", "timestamp text %r is not an XSD dateTime" % s_))
                else:
                    try:
                        from suds.sax.date import DateTime
                        DateTime(s_)
                    except Exception as e:  # noqa
                        py_findings.append(("C17:timestamp-not-xsd-datetime", "suds cannot read back its own timestamp %r" % s_))
            per_op.setdefault(cname, []).append((res, after))
            raws.append((cname, raw.decode("utf-8", "replace") if raw else res[2]))
        # a generated nonce is hexadecimal text of a digest: base64 alphabet, whole quanta
        if sec is not None and W is not None:
            for tk, t in zip(W[1], sec.tokens):
                if tk.kind == "user" and "nonce" in tk.kw and tk.kw["nonce"] is None:
                    if not (isinstance(t.nonce, str) and t.nonce and BASE64.match(t.nonce)):
                        py_findings.append(("C17:generated-nonce-shape", "generated nonce %r is not base64 text" % (t.nonce,)))
        # ---- one Coq case per operation called
        for cname, results in per_op.items():
            if cname.split("/")[-1] != calls[0].split("/")[-1]:
                # the values were generated for the first operation's parts: calls of another
                # operation in between only serve the "same again afterwards" part of the property
                ck.count("interleaved-other-operation-calls", len(results))
                continue
            parts = ops[cname]
            I = new_interner()
            P = F.CoqPrinter(S, I)
            ok = True
            ccalls = []
            for res, after in results:
                if after is None:
                    ok = False
                    break
                ca = clist(["(%s, %s)" % (F.node_to_coq(ns, I, n), cbool(att)) for n, att in after], "xnode * bool")
                if res[0] == "ok":
                    cr = "(IHdr %s %s)" % (clist([F.node_to_coq(ns, I, n) for n in res[1]], "xnode"),
                                           clist([cstr(s_) for s_ in res[2]], "str"))
                else:
                    cr = "(IErr %s)" % res[1]
                ccalls.append("(mkIC %s %s)" % (cr, ca))
            if not ok:
                py_findings.append(("C17:caller-object-altered", "a caller-supplied Element can no longer be serialised after the call"))
                continue
            out_parts = outs.get(cname, [])
            term = "(mkH %s %s %s %s %s %s %s %s)" % (
                P.schema(), cbool(xstq), clist([c_part(P, p) for p in parts], "edecl"),
                clist([c_part(P, p) for p in out_parts], "edecl"),
                clist([F.node_to_coq(ns, I, n) for n in before_nodes], "xnode"),
                c_wsse(sec, I), c_headers(P, H), clist(ccalls, "icall"))
            meta = {"wsdl": wsdl, "operation": cname, "calls": calls, "headers": H, "wsse": W, "xstq": xstq,
                    "parts": parts, "out_parts": out_parts, "results": [r[0][:2] if r[0][0] == "err" else ("ok",) for r in results],
                    "requests": raws, "features": features(parts, H), "py": py_findings, "term": term}
            self.cases.append((term, meta))
            py_findings = []       # reported once
            ck.seen((tag, cname, H.expr(), W is not None, tuple(calls)),
                    nontrivial=(H.kind != "unset" or W is not None))
            ck.count("shape-" + H.kind)
            entries = [v for _, v in H.items] if H.kind == "dict" else [x[1] for x in H.items if x[0] == "val"]
            if any(isinstance(v, TList) for v in entries):
                ck.count("multi-valued-entry-as-tuple")
            if any(isinstance(v, list) and not isinstance(v, TList) for v in entries):
                ck.count("multi-valued-entry-as-list")
            ck.count("calls", len(results))
            ck.count("parts-%d" % len(parts))
            if W is not None:
                ck.count("wsse")
            if any(x[0] == "elem" for x in H.items if H.kind != "dict"):
                ck.count("with-ready-made-elements")
            if H.kind == "dict" and any(isinstance(v, tuple) and v[0] == "elem" for _, v in H.items):
                ck.count("with-ready-made-element-as-part-value")
            if out_parts:
                ck.count("operation-declares-reply-header-parts")
                keys = set(k_ for k_, _ in H.items) if H.kind == "dict" else set()
                nplain = sum(1 for x in H.items if x[0] == "val") if H.kind in ("one", "seq") else 0
                if any(p.key() in keys for p in out_parts) or nplain > len(parts):
                    ck.count("reply-header-part-has-a-matching-value")
            for r, _ in results:
                ck.count("result-" + (r[0] if r[0] == "ok" else r[1]))


def payload_of(meta):
    return {"wsdl": meta["wsdl"].decode("utf-8"), "operation": meta["operation"], "calls": meta["calls"],
            "soapheaders": meta["headers"].expr(), "wsse": repr([meta["wsse"][0], [t.expr() for t in meta["wsse"][1]]])
            if meta["wsse"] else None, "xstq": meta["xstq"], "requests": meta["requests"][:4],
            "declared_parts": [(p.kind, p.name) for p in meta["parts"]],
            "declared_reply_parts": [(p.kind, p.name) for p in meta["out_parts"]], "coq_case": meta["term"][:6000],
            "namespaces": None}


# ---------------------------------------------------------------------------
# the fixed part: one hand-written interface on which the input classes of the
# four repaired defects (and the ordinary shapes) are exercised on every run
# ---------------------------------------------------------------------------

def fixed_interface():
    S = F.Schema([("urn:c17:a", True), ("urn:c17:b", False)])
    T = F.CType("T0", 0, None, [F.Cont("sequence", False, [
        F.Elem("e1", 0, True, ("b", "string")), F.Elem("e2", 0, True, ("b", "int"), opt=True)])], [])
    S.types.append(T)
    parts = [Part("elem", "H1", F.Elem("H1", 0, True, ("b", "string")), "p1"),
             Part("elem", "H2", F.Elem("H2", 1, True, ("n", 0, "T0"), nillable=True), "p2"),
             Part("type", "hp3", F.Elem("hp3", 0, False, ("b", "int"), opt=True), "hp3")]
    # op3 ("login"): H1 goes in; the reply carries H1 again and a session header R1 of its own
    R1 = Part("elem", "R1", F.Elem("R1", 1, True, ("b", "string")), "r1")
    ops = [("op0", parts), ("op1", parts[:1]), ("op2", []), ("op3", parts[:1])]
    outs = {"op3": [R1, parts[0]], "op1": [parts[1]]}
    return S, ops, outs


def fixed_configs():
    leaf = lambda s: ("leaf", s, s)   # noqa
    obj = F.VObj(None, [("e1", leaf("v"))])
    x = XT("x", "p", "urn:q", [(None, None, "k", "v")], None, [XT("y", None, None, [], "t", [])])
    xa = XT("H1", "own", "urn:c17:a", [(None, None, "id", "7")], None, [XT("user", "own", "urn:c17:a", [], "bob", [])])
    dt = ("dt", (2020, 1, 2, 3, 4, 5, 678), None)
    sec = (True, [Tok("user", username="u<ser", password="p&w", nonce="abc", enc=True, created=dt),
                  Tok("user", username="bob", digest="DIG=="),
                  Tok("stamp", validity=10)])
    return [
        ("op0", Headers("seq", [("val", leaf("a")), ("val", obj), ("val", ("leaf", 5, "5"))], [], "tuple"), sec),
        ("op0", Headers("dict", [("H2", obj), ("hp3", ("leaf", 7, "7")), ("H1", None)], []), None),
        ("op1", Headers("one", [("val", leaf("single"))], []), None),
        ("op1", Headers("seq", [("elem", 0), ("val", leaf("a")), ("elem", 0)], [x], "list"), sec),
        # the input classes of the four repaired defects
        ("op0", Headers("seq", [("val", [leaf("a"), leaf("b")])], [], "list"), None),
        ("op0", Headers("dict", [("H1", [leaf("a")])], []), None),
        ("op1", Headers("seq", [("val", leaf("a")), ("val", leaf("b")), ("elem", 0)], [x], "list"), None),
        ("op2", Headers("seq", [("val", leaf("a")), ("elem", 0)], [x], "tuple"), None),
        ("op0", Headers("seq", [("val", None), ("val", obj)], [], "list"), None),
        ("op0", Headers("seq", [("val", leaf("a")), ("val", None)], [], "list"), None),
        ("op0", Headers("seq", [("val", leaf("a")), ("val", obj), ("val", None)], [], "tuple"), None),
        # list-valued entries with an item that is None (left out by the marshaller for the type= part)
        ("op0", Headers("seq", [("val", leaf("a")), ("val", [obj, obj]), ("val", [None, ("leaf", 3, "3")])], [], "list"), None),
        ("op0", Headers("dict", [("H1", [leaf("a"), leaf("b")]), ("hp3", [None]), ("H2", [])], []), None),
        # ... and the same multi-valued entries handed over as TUPLES (empty, one item, several)
        ("op0", Headers("seq", [("val", TList([leaf("a")])), ("val", TList([obj, obj])),
                                ("val", TList([None, ("leaf", 3, "3"), ("leaf", 4, "4")]))], [], "list"), None),
        ("op0", Headers("dict", [("H1", TList([leaf("a"), leaf("b")])), ("hp3", TList([("leaf", 1, "1"), ("leaf", 2, "2")])),
                                 ("H2", TList([]))], []), None),
        ("op1", Headers("seq", [("val", TList([leaf("a"), leaf("b"), leaf("c")])), ("elem", 0)], [x], "tuple"), sec),
        ("op0", Headers("seq", [("val", None), ("val", None), ("val", None), ("val", leaf("s")), ("elem", 0),
                                ("val", None), ("elem", 0)], [x], "tuple"), sec),
        # the reply's header parts (op3: R1 and H1 again; op1: H2) are not the request's: a client-wide dict
        # that has values for them, a tuple longer than the declared input parts
        ("op3", Headers("dict", [("H1", leaf("secret")), ("R1", leaf("S-1"))], []), None),
        ("op3", Headers("seq", [("val", leaf("secret")), ("val", leaf("S-1"))], [], "tuple"), None),
        ("op1", Headers("dict", [("H2", obj), ("H1", leaf("a"))], []), sec),
        # ready-made Elements as VALUES of declared parts (one object for two parts), reused across calls
        ("op0", Headers("dict", [("H1", ("elem", 1)), ("hp3", ("elem", 0)), ("H2", ("elem", 1))], [x, xa]), None),
        ("op0", Headers("dict", [("H2", ("elem", 0)), ("H1", leaf("a")), ("hp3", ("leaf", 7, "7"))], [xa]), sec),
    ]


def probe_rebinding(ck, client, wsdl):
    """'ready-made elements included verbatim' for elements in which a prefix
    means two things at different depths."""
    from . import sudsutil as U
    from suds.sax.element import Element

    def nested():
        e = Element("x", ns=("p", "urn:U1"))
        b = Element("b")
        e.append(b)
        b.append(Element("c", ns=("p", "urn:U2")))
        d = Element("d")
        d.setPrefix("p")
        b.append(d)
        return e

    def shadow_then_outer():
        e = Element("x", ns=("p", "urn:U1"))
        inner = Element("i", ns=("p", "urn:U2"))
        inner.append(Element("j", ns=("p", "urn:U2")))
        e.append(inner)
        return e

    def attr_prefix():
        e = Element("x", ns=("p", "urn:U1"))
        k = Element("k")
        k.addPrefix("q", "urn:U3")
        k.set("q:a", "v")
        e.append(k)
        return e
    for name, mk in (("nested-rebinding", nested), ("shadowing-subtree", shadow_then_outer),
                     ("attribute-prefix", attr_prefix)):
        e = mk()
        before = U.expat_parse(str(e).encode("utf-8")).canon()
        client.set_options(soapheaders=[e], wsse=None)
        raw = client.service.op2().envelope
        kids = U.expat_parse(raw).find("Header", F.SOAPENV).elements()
        ck.seen(("rebinding-probe", name))
        ck.count("prefix-rebinding-probes")
        same = len(kids) == 1 and kids[0].canon() == before
        after = U.expat_parse(str(e).encode("utf-8")).canon()
        if after != before or e.parent is not None:
            ck.failing_input("C17:caller-object-altered", "a caller-supplied Element is altered by sending (%s)" % name,
                             {"element": str(e), "request": raw.decode("utf-8")})
        if not same:
            key = KEY_REBIND if name == "nested-rebinding" else "C17:ready-made-element-not-verbatim"
            ck.failing_input(key, "a ready-made header Element is not sent verbatim (%s): %s is sent as %s"
                             % (name, before, [k.canon() for k in kids]),
                             {"element": str(e), "request": raw.decode("utf-8"), "wsdl": wsdl.decode("utf-8"),
                              "how": "client.set_options(soapheaders=[element]); client.service.op2()"})


def probe_element_items(ck, client, wsdl):
    """Ready-made Elements as ITEMS of a list-valued entry (positional-by-part or dict value): the
    model's values have no Element items, so these shapes are compared here, outside Coq — every
    item's element is sent as it is in its position, the same on every call, and the caller's
    objects read the same and stay detached after each call."""
    from . import sudsutil as U

    def mk():
        return XT("H1", "own", "urn:c17:a", [(None, None, "id", "7")], None,
                  [XT("user", "own", "urn:c17:a", [], "bob", []), XT("plain", None, None, [], "t", [])]).build()
    h1 = lambda t: U.expat_parse(('<H1 xmlns="urn:c17:a">%s</H1>' % t).encode("utf-8")).canon()   # noqa
    hp3 = lambda t: U.expat_parse(('<hp3>%s</hp3>' % t).encode("utf-8")).canon()   # noqa
    shapes = [
        ("dict-value-list", lambda e: {"H1": [e, "a", e]}, lambda x: [x, h1("a"), x]),
        ("dict-value-tuple", lambda e: {"H1": (e, "a", e), "hp3": (3, 4)}, lambda x: [x, h1("a"), x, hp3("3"), hp3("4")]),
        ("positional-list", lambda e: [[e, "a"], e, {"e1": "v"}, [3, e]],
         lambda x: [x, h1("a"), x, U.expat_parse(b'<H2 xmlns="urn:c17:b"><e1 xmlns="urn:c17:a">v</e1></H2>').canon(),
                    hp3("3"), x]),
        ("single-list", lambda e: ([e],), lambda x: [x]),
    ]
    for name, mksh, expect in shapes:
        e = mk()
        before_txt = str(e)
        x = U.expat_parse(before_txt.encode("utf-8")).canon()
        sh = mksh(e)
        client.set_options(soapheaders=sh, wsse=None)
        ck.seen(("element-item-probe", name))
        ck.count("element-item-probes")
        for call in range(3):
            pl = {"shape": name, "soapheaders": repr(sh)[:300], "call": call + 1, "wsdl": wsdl.decode("utf-8"),
                  "how": "client.set_options(soapheaders=<shape with one Element object>); client.service.op0() x3"}
            try:
                raw = client.service.op0().envelope
                kids = [k.canon() for k in U.expat_parse(raw).find("Header", F.SOAPENV).elements()]
                pl["request"] = raw.decode("utf-8")
            except Exception as ex:  # noqa
                ck.failing_input("C17:ready-made-element-item", "a list-valued header entry with a ready-made Element "
                                 "item cannot be sent (%s, call %d): %r" % (name, call + 1, ex), pl)
                break
            if str(e) != before_txt or e.parent is not None:
                ck.failing_input("C17:caller-object-altered", "a caller-supplied Element given as an item of a "
                                 "list-valued header entry is altered by sending (%s, call %d)" % (name, call + 1), pl)
                break
            if kids != expect(x):
                ck.failing_input("C17:repeat-differs" if call else "C17:ready-made-element-item",
                                 "a list-valued header entry with ready-made Element items is not sent as configured "
                                 "(%s, call %d): %s" % (name, call + 1, kids), pl)
                break


# ---------------------------------------------------------------------------
# the check
# ---------------------------------------------------------------------------

def run(ck):
    common.force_repo_path()
    from . import sudsutil as U

    ck.trusted = [
        "Coq 8.16.1 kernel + vm_compute; no axioms declared",
        "harness/family.py + harness/c17.py: interface/value/shape generators, WSDL renderer, infoset -> Coq printer",
        "expat (namespace mode) as the independent XML processor reading the request and the caller's elements",
        "C01's marshaller model and theorem (marshal_conforms) and C06's isoformat model and theorem "
        "(datetime_roundtrip) are imported, not re-proved",
    ]
    ck.notes = [
        "modelled: Binding.headercontent (Definition.nvl default, tuple-wrapping of a single value, the positional "
        "loop with its counter, surplus plain values skipped, positional None leaving the part out, dict lookup "
        "skipping None, deepcopy of caller Elements, the local add(): mkheader mapped over a list-valued entry, one "
        "setPrefix + append per node, skipped nodes left out, AttributeError for a list inside the list), "
        "Binding.header/Element.append (parent pointer), Security/UsernameToken/Timestamp .xml() — at the level of "
        "the namespace infoset",
        "the four defects repaired in /repo (02a92ff, dfdc017, c4ebdf6) are no longer in the model; the function "
        "as it was before (headercontent_q, one switch per defect) is only used to NAME the defect when an "
        "implementation fails the specification the way the old code did: reported as a failing input under "
        "C17:list-valued-header-entry / C17:positional-none-type-part-raises / "
        "C17:element-after-surplus-values-dropped / C17:positional-none-sends-empty",
        "modelled: wsdl.Binding.add_operations registering soap:header children of wsdl:input / wsdl:output on "
        "their own side and headpart_types reading the input side for a request (the case hands BOTH lists to "
        "Coq as rendered in the WSDL; the specification works from the input side only); a ready-made Element as "
        "the VALUE of a declared part in the dict form (marshaller -> ElementAppender -> ElementWrapper: sent as it "
        "is, the caller's object untouched)",
        "outside the Coq model, compared in Python: ready-made Elements as ITEMS of a list-valued entry (4 shapes "
        "x 3 calls: sent as they are in their position, same on every call, caller's object unchanged)",
        "covered by correspondence only: wsdl.Binding.header/__resolveheaders (every generated soap:header must "
        "resolve to the declared part, in order), prefix handling (setPrefix/promotePrefixes: infoset compared), "
        "setnonce/setcreated (the token fields are read back at call time; generated values checked for shape)",
        "time/randomness: generated nonce and created/expires are compared by shape (base64 alphabet, XSD "
        "dateTime denoting the token's own datetime field), explicit values exactly",
        "prefix handling is outside the infoset model: three fixed ready-made elements that bind prefixes at "
        "several depths are compared (expat infoset of the caller's element vs the Header child) outside Coq",
        "not flagged (reported): Security carries an unqualified mustUnderstand attribute; a token without "
        "password sends an empty Password element; surplus plain values are dropped silently; a None item of a "
        "list-valued entry for a global element sends an empty element (C01's rule for list items); a list inside "
        "a list-valued entry raises AttributeError (outside the guard, no opinion); a value that already contains "
        "an entity reference is sent verbatim (C04's known finding)",
    ]
    proof_ok = ck.prove(THEOREMS) if THEOREMS else None

    rng = ck.rng
    R = Runner(ck)
    quick = ck.tier == "quick"

    # ---- fixed interface (every known shape re-observed on every run)
    S, ops, outs = fixed_interface()
    wsdl = render_wsdl(S, ops, outs=outs)
    opsd = dict(ops)
    try:
        client = U.client_from_wsdl(wsdl, nosend=True)
        for (opname, H, W) in fixed_configs():
            R.run_config(-1, client, wsdl, S, opsd, H, W, [opname, opname, opname], True, outs)
    except Exception as e:  # noqa
        ck.failing_input("C17:wsdl-load", "the hand-written WSDL with three header parts cannot be used: %r" % (e,),
                         {"wsdl": wsdl.decode("utf-8"), "error": repr(e)})

    # ---- ready-made elements that bind one prefix twice (prefix handling is not part of the
    #      infoset model: checked here, element against Header child, outside Coq)
    try:
        probe_rebinding(ck, client, wsdl)
    except Exception as e:  # noqa
        ck.unproved("the prefix-rebinding probe could not be carried out: %r" % (e,), {"error": repr(e)})

    try:
        probe_element_items(ck, client, wsdl)
    except Exception as e:  # noqa
        ck.unproved("the Element-item probe could not be carried out: %r" % (e,), {"error": repr(e)})

    # ---- generated interfaces
    n_schemas = 60 if quick else 300
    per_op = 5 if quick else 8
    maxlen = 3 if quick else 4
    for si in range(n_schemas):
        S = F.gen_schema(rng, max_types=3, depth=2)
        counter = [0]
        ops = [("op%d" % k, gen_parts(rng, S, rng.choice([0, 1, 1, 2, 2, 3, 3]), counter)) for k in range(2)]
        # every third interface exposes the port type through a second port whose binding declares
        # fewer header parts (a prefix of the list, so positional values still line up) for the
        # same-named operations; calls then alternate between the two ports on ONE client
        ops2 = None
        if si % 3 == 1 and any(parts for _, parts in ops):
            ops2 = dict((name, parts[:rng.randrange(len(parts))] if parts else []) for name, parts in ops)
        # reply-side header declarations: about every second operation's wsdl:output declares soap:header
        # parts too — some of its input parts again (any order) and/or parts of a message of its own
        outs = {}
        for name, parts in ops:
            if rng.random() < 0.55:
                shared = [p for p in parts if rng.random() < 0.4]
                own = gen_parts(rng, S, rng.choice([0, 1, 1, 2]), counter)
                both = shared + own
                rng.shuffle(both)
                if both:
                    outs[name] = both
        wsdl = render_wsdl(S, ops, ops2=ops2, outs=outs)
        opsd = dict(ops)
        if ops2 is not None:
            for name, parts2 in ops2.items():
                opsd["port2/" + name] = parts2
            ck.count("interfaces-with-two-ports")
        try:
            client = U.client_from_wsdl(wsdl, nosend=True)
        except Exception as e:  # noqa
            ck.failing_input("C17:wsdl-load", "generated WSDL could not be loaded: %r" % (e,),
                             {"wsdl": wsdl.decode("utf-8"), "error": repr(e)})
            continue
        for opname, parts in ops:
            other = [n for n, _ in ops if n != opname][0]
            for rep in range(per_op):
                force = None
                if rep == 0 and parts:
                    force = ["list", "surplus", "none", "elemvalue"][si % 4]
                H = gen_headers(rng, S, parts, force, outs.get(opname, ()))
                W = gen_wsse(rng)
                n = rng.randrange(1, maxlen + 1)
                if H.xts:
                    n = max(n, 2)       # caller objects: what a second call sends is part of the property
                calls = [opname] * n
                if n > 1 and rng.random() < 0.3:
                    calls[rng.randrange(1, n)] = other       # the same objects used for another operation
                if ops2 is not None:
                    # the same operation through the other port, before and/or after
                    k = rng.randrange(3)
                    if k == 0:
                        calls = ["port2/" + opname] + calls
                    elif k == 1:
                        calls = calls + ["port2/" + opname]
                    else:
                        calls = ["port2/" + opname] + calls + ["port2/" + opname]
                    if rng.random() < 0.5:
                        calls = [("port2/" + c_) if "/" not in c_ and c_ == opname else c_.split("/")[-1]
                                 if c_ == "port2/" + opname else c_ for c_ in calls]
                R.run_config(si, client, wsdl, S, opsd, H, W, calls, rng.random() < 0.8, outs)

    cases = R.cases
    ck.extra["cases"] = len(cases)
    if cases:
        m = cases[0][1]
        ck.sample({"operation": m["operation"], "soapheaders": m["headers"].expr()[:300], "request": m["requests"][0][1][:900]})
        m = cases[min(len(cases) - 1, 17)][1]
        ck.sample({"operation": m["operation"], "soapheaders": m["headers"].expr()[:300], "request": m["requests"][0][1][:900]})

    preds = ["hdr_agrees", "hdr_spec_ok", "objects_ok", "repeat_ok", "fun c => negb (hdr_guard c)",
             "fun c => negb (hdr_guard c) || match expected_entries c with Some _ => first_ok c | None => false end",
             "first_security_ok"]
    res = ck.run_cases("hdr", PRE, "hcase", [c for c, _ in cases], preds, shard=40)
    disagree = set(res["hdr_agrees"])
    spec_bad = set(res["hdr_spec_ok"])
    in_guard = set(res[preds[4]])             # negb guard fails = inside the guard
    ck.extra["cases_inside_theorem_guard"] = len(in_guard)
    ck.extra["theorem_instance_failures"] = len(res[preds[5]])
    ck.extra["cases_exercising_repaired_defect_classes"] = sum(1 for _, m in cases if m["features"])
    for _, m in cases:
        for key in m["features"]:
            ck.count("class-" + key.split(":", 1)[1])

    # a case that fails the specification and is not what the model computes: does the implementation
    # do what the code did BEFORE one of the four repairs?  (fewest switches first; only evaluated
    # when there is such a case, i.e. never on the unchanged tree)
    suspects = [i for i in sorted(spec_bad & disagree)
                if i not in res["objects_ok"] and i not in res["repeat_ok"]]
    returned = {}
    hints = {}
    probe_failed = False
    if suspects:
        combos = quirk_combos()
        try:
            qres = ck.run_cases("hdrq", PRE, "hcase", [c for c, _ in cases],
                                [c_quirks(c) for c in combos] + ["hdr_agrees_slip"], shard=40)
            bad = dict((c, set(qres[c_quirks(c)])) for c in combos)
            # the reply's header parts registered as request parts?
            slip_ok = not qres["hdr_agrees_slip"]
            ck.extra["reply_parts_as_request_parts_explains_every_case"] = slip_ok
            # the implementation is ONE program: prefer the fewest switches that explain every case
            # of the run; otherwise the fewest that explain the case at hand
            whole = [c for c in combos if not bad[c]]
            ck.extra["old_behaviour_explaining_every_case"] = \
                [REPAIRED[k][0] for k in range(4) if whole[0][k]] if whole else None
            for i in suspects:
                pool = [c for c in combos if i not in bad[c]]
                if whole:
                    pool = [c for c in pool if all(whole[0][k] or not c[k] for k in range(4))]
                else:
                    pool = [c for c in pool
                            if all(REPAIRED[k][0] in cases[i][1]["features"] for k in range(4) if c[k])]
                if not whole and slip_ok and cases[i][1]["out_parts"]:
                    returned[i] = [(KEY_REPLY_PART, "the request Header carries an entry for a header part the "
                                    "operation declares for its REPLY only (soap:header inside wsdl:output)")]
                elif pool:
                    returned[i] = [REPAIRED[k] for k in range(4) if pool[0][k]]
            if not whole and len(returned) < len(suspects):
                # some failing case is NOT what the old code did: something else changed, and a match
                # with the old code on other inputs may be a coincidence — kept as a hint only
                hints = dict((i, [k for k, _ in v]) for i, v in returned.items())
                returned = {}
        except Exception as e:  # noqa
            ck.extra["old_behaviour_probe_error"] = repr(e)[:300]
            probe_failed = True
    ck.extra["cases_showing_a_repaired_defect_again"] = len(returned)

    def fallback_keys(m):
        """the old-code comparison was not available (or matched nothing): name the defect from the
        input class and the kind of result"""
        raised = any(r[0] == "err" and r[1] == "EAttr" for r in m["results"])
        out = []
        for key, what in REPAIRED:
            if key in m["features"] and raised == (key in (KEY_LIST, KEY_NONE_TYPE)):
                out.append((key, what))
        return out

    for i, (term, m) in enumerate(cases):
        for key, what in m["py"]:
            ck.failing_input(key, what, payload_of(m))
    for i in sorted(spec_bad):
        m = cases[i][1]
        pl = payload_of(m)
        if i in res["objects_ok"]:
            ck.failing_input("C17:caller-object-altered",
                             "a caller-supplied Element is altered (content or parent) by sending (%s)" % m["operation"], pl)
        elif i in res["repeat_ok"]:
            ck.failing_input("C17:repeat-differs",
                             "repeating the call with the same header objects sent different headers (%s)" % m["operation"], pl)
        elif i in res["first_security_ok"]:
            ck.failing_input("C17:security-token",
                             "the Header of %s does not carry exactly one wsse:Security element with every token's "
                             "username, password or digest, nonce and XSD dateTime timestamps (wsse %s)"
                             % (m["operation"], pl["wsse"]), pl)
        elif i in disagree and (returned.get(i) or (probe_failed and fallback_keys(m))):
            for key, what in (returned.get(i) or fallback_keys(m)):
                ck.failing_input(key, "%s (%s, soapheaders %s)" % (what, m["operation"], m["headers"].expr()[:200]), pl)
        else:
            if i in hints:
                pl["hint"] = "on this input the result is what the code did before the repair of %s" % ", ".join(hints[i])
            ck.failing_input("C17:header-content",
                             "the Header of %s does not hold exactly the configured entries (soapheaders %s)"
                             % (m["operation"], m["headers"].expr()[:200]), pl)
    # the theorem's own instance must hold on every case inside the guard
    for i in res[preds[5]]:
        if i not in spec_bad:
            disagree.add(i)

    ck.rule = ("one hand-written interface (3 header parts: simple global element, nillable complex global element "
               "in another namespace, type= part) with 22 fixed configurations (3 calls each) incl. the input classes of the four repaired defects, "
               "and 3 prefix-rebinding probes; "
               "generated abstract schemas (1-3 namespaces) x two operations with 0..3 declared header parts x "
               "soapheaders shapes {unset, single value/Element/None, tuple/list positional with 0..k+2 values, "
               "None and multi-valued entries (container: list or tuple; empty, one or more items; items: values, None), "
               "surplus values, ready-made Elements as part values "
               "in the dict form (also one object for two parts; >= 2 calls), reply-side soap:header declarations "
               "(input parts again and/or parts of their own message) with matching dict keys / surplus values, "
               "ready-made Elements (also the same object twice) interleaved, dict by "
               "part name with missing/None/list/unknown keys} x wsse {none, Security with 0..3 tokens: "
               "UsernameToken with/without password, digest, nonce (given/generated), encoding flag, created "
               "(given/now/invalid); Timestamp} x call sequences of length 1..%d reusing the same objects, some "
               "switching operation; distinct = (client, operation, configuration, sequence); non-trivial = some "
               "header or wsse configured" % maxlen)
    if proof_ok is False:
        ck.unproved("proof obligation of C17 no longer checks: " + ck.proof_log[-1500:], {"log": ck.proof_log[-3000:]})
    # model != implementation without a failing input (those were reported above)
    dis = sorted(i for i in disagree if i not in spec_bad)
    if dis:
        m = cases[dis[0]][1]
        ck.unproved("model/implementation correspondence of C17 no longer holds: the implementation is no longer "
                    "the algorithm the theorems are about (%d cases; first: %s %s)"
                    % (len(dis), m["operation"], m["headers"].expr()[:200]),
                    {"correspondence": "hdr_agrees", "count": len(dis), "first": payload_of(m)})


# ---------------------------------------------------------------------------
# replay
# ---------------------------------------------------------------------------

def replay(ck, payload):
    common.force_repo_path()
    from . import sudsutil as U
    print(payload.get("what"))
    if "wsdl" not in payload or "soapheaders" not in payload:
        print(json.dumps(dict((k, v) for k, v in payload.items() if k != "wsdl"), indent=1)[:3000])
        if "element" in payload and "wsdl" in payload:
            from suds.sax.parser import Parser
            e = Parser().parse(string=payload["element"].encode("utf-8")).root().detach()
            client = U.client_from_wsdl(payload["wsdl"].encode("utf-8"), nosend=True)
            client.set_options(soapheaders=[e])
            raw = client.service.op2().envelope
            print("caller element:", U.expat_parse(str(e).encode("utf-8")).canon())
            print("now sent      :", [k.canon() for k in U.expat_parse(raw).find("Header", F.SOAPENV).elements()])
        return 0
    VObj = F.VObj      # noqa  (names used by the expressions)
    env = {"Headers": Headers, "XT": XT, "VObj": VObj, "Tok": Tok, "TList": TList, "datetime": datetime,
           "Decimal": decimal.Decimal, "decimal": decimal}
    H = eval(payload["soapheaders"], env)
    W = None
    if payload.get("wsse"):
        mu, toks = eval(payload["wsse"], env)
        W = (mu, [eval(t, env) for t in toks])
    client = U.client_from_wsdl(payload["wsdl"].encode("utf-8"), nosend=True)

    class NSOnly(object):
        pass
    # values need the schema's namespace list for typed objects
    uris = re.findall(r'<xsd:schema targetNamespace="([^"]+)"', payload["wsdl"])
    S = F.Schema([(u, True) for u in uris])
    sh, els, vals = build_headers(client, S, H)
    client.set_options(soapheaders=sh, wsse=build_wsse(W), xstq=payload.get("xstq", True))
    print("declared parts:", payload.get("declared_parts"))
    print("soapheaders   :", repr(sh)[:500])
    for cname in payload["calls"]:
        try:
            raw = invoke(client, cname).envelope.decode("utf-8")
            a, b = raw.find("Header"), raw.find("Body")
            print("%s now sends : %s" % (cname, raw[max(a - 10, 0):b]))
        except Exception as e:  # noqa
            print("%s now raises: %r" % (cname, e))
    return 0
